(* C09/Proofs.v -- specification (denotation of constraints) and proofs about verify, get_bases,
   variables and can_infer/infer of C09/Model.v. *)
From Coq Require Import List Arith ZArith Bool Lia.
From XV Require Import C09.Model.
Import ListNotations.

(* ================================================================== induction principles *)
Section AttrInd.
Variable P : attr -> Prop.
Hypothesis HD : forall k d, P (Data k d).
Hypothesis HP : forall k ps, Forall P ps -> P (Par k ps).
Fixpoint attr_ind2 (a : attr) : P a :=
  match a with
  | Data k d => HD k d
  | Par k ps =>
      HP k ps ((fix go (l : list attr) : Forall P l :=
                  match l with
                  | [] => Forall_nil _
                  | x :: r => Forall_cons _ (attr_ind2 x) (go r)
                  end) ps)
  end.
End AttrInd.

Section ConstrInd.
Variable P : constr -> Prop.
Hypothesis HAny : P CAny.
Hypothesis HBase : forall k, P (CBase k).
Hypothesis HEq : forall a, P (CEq a).
Hypothesis HSet : forall vs, P (CSet vs).
Hypothesis HAnyOf : forall cs, Forall P cs -> P (CAnyOf cs).
Hypothesis HAllOf : forall cs, Forall P cs -> P (CAllOf cs).
Hypothesis HParam : forall k cs, Forall P cs -> P (CParam k cs).
Hypothesis HVar : forall n c, P c -> P (CVar n c).
Hypothesis HMsg : forall m c, P c -> P (CMsg m c).
Hypothesis HTypeVar : forall i c, P c -> P (CTypeVar i c).
Fixpoint constr_ind2 (c : constr) : P c :=
  let go := fix go (l : list constr) : Forall P l :=
              match l with
              | [] => Forall_nil _
              | x :: r => Forall_cons _ (constr_ind2 x) (go r)
              end in
  match c with
  | CAny => HAny
  | CBase k => HBase k
  | CEq a => HEq a
  | CSet vs => HSet vs
  | CAnyOf cs => HAnyOf cs (go cs)
  | CAllOf cs => HAllOf cs (go cs)
  | CParam k cs => HParam k cs (go cs)
  | CVar n c => HVar n c (constr_ind2 c)
  | CMsg m c => HMsg m c (constr_ind2 c)
  | CTypeVar i c => HTypeVar i c (constr_ind2 c)
  end.
End ConstrInd.

(* ================================================================== basic lemmas *)
Lemma forall2b_eq {A} (f : A -> A -> bool) (l : list A) :
  Forall (fun x => forall y, f x y = true <-> x = y) l ->
  forall l', forall2b f l l' = true <-> l = l'.
Proof.
  induction 1 as [|x r Hx Hr IH]; intros [|y r']; simpl; split; intros H; try congruence; auto.
  - apply andb_true_iff in H as [H1 H2]. apply Hx in H1. apply IH in H2. congruence.
  - inversion H; subst. apply andb_true_iff; split; [apply Hx | apply IH]; reflexivity.
Qed.

Lemma attr_eqb_eq : forall a b, attr_eqb a b = true <-> a = b.
Proof.
  induction a as [k d|k ps IH] using attr_ind2; intros [k' d'|k' ps']; simpl; split; intros H;
    try congruence.
  - apply andb_true_iff in H as [H1 H2]. apply Nat.eqb_eq in H1. apply Z.eqb_eq in H2. congruence.
  - inversion H; subst. now rewrite Nat.eqb_refl, Z.eqb_refl.
  - apply andb_true_iff in H as [H1 H2]. apply Nat.eqb_eq in H1.
    apply (forall2b_eq (fun x y => attr_eqb x y)) in H2; [congruence | exact IH].
  - inversion H; subst. rewrite Nat.eqb_refl. simpl.
    apply (forall2b_eq (fun x y => attr_eqb x y)); [exact IH | reflexivity].
Qed.

Lemma attr_eqb_refl a : attr_eqb a a = true.
Proof. now apply attr_eqb_eq. Qed.

Lemma mem_attr_In a vs : mem_attr a vs = true <-> In a vs.
Proof.
  unfold mem_attr. rewrite existsb_exists. split.
  - intros [v [Hi He]]. apply attr_eqb_eq in He. now subst.
  - intros Hi. exists a. split; [assumption | apply attr_eqb_refl].
Qed.

Lemma memn_In k l : memn k l = true <-> In k l.
Proof.
  unfold memn. rewrite existsb_exists. split.
  - intros [v [Hi He]]. apply Nat.eqb_eq in He. now subst.
  - intros Hi. exists k. split; [assumption | apply Nat.eqb_refl].
Qed.

Lemma memn_false k l : memn k l = false <-> ~ In k l.
Proof.
  rewrite <- memn_In. destruct (memn k l); split; intros; congruence.
Qed.

Lemma inter_In k b0 b : In k (inter b0 b) <-> In k b0 /\ In k b.
Proof. unfold inter. rewrite filter_In, memn_In. tauto. Qed.

(* ================================================================== list predicates *)
Section ListP.
Context {A : Type} (P : A -> Prop).
Fixpoint existsP (l : list A) : Prop := match l with [] => False | c :: r => P c \/ existsP r end.
Fixpoint forallP (l : list A) : Prop := match l with [] => True | c :: r => P c /\ forallP r end.
Lemma existsP_In l : existsP l <-> exists c, In c l /\ P c.
Proof.
  induction l as [|x r IH]; simpl.
  - split; [tauto | intros [c [[] _]]].
  - rewrite IH. split.
    + intros [H|[c [Hi Hc]]]; [exists x | exists c]; auto.
    + intros [c [[He|Hi] Hc]]; [subst; auto | right; exists c; auto].
Qed.
Lemma forallP_In l : forallP l <-> forall c, In c l -> P c.
Proof.
  induction l as [|x r IH]; simpl.
  - split; [intros _ c [] | auto].
  - rewrite IH. split.
    + intros [H1 H2] c [He|Hi]; [subst; auto | auto].
    + intros H; split; [apply H; auto | intros c Hi; apply H; auto].
Qed.
End ListP.
Section List2P.
Context {A B : Type} (P : A -> B -> Prop).
Fixpoint forall2P (l : list A) (l' : list B) : Prop :=
  match l, l' with
  | [], [] => True
  | a :: r, b :: q => P a b /\ forall2P r q
  | _, _ => False
  end.
Lemma forall2P_length l : forall l', forall2P l l' -> length l = length l'.
Proof. induction l as [|a r IH]; intros [|b q]; simpl; try tauto. intros [_ H]. f_equal. auto. Qed.
Lemma forall2P_In l : forall l' c, forall2P l l' -> In c l -> exists p, In p l' /\ P c p.
Proof.
  induction l as [|a r IH]; intros [|b q] c; simpl; try tauto.
  intros [H1 H2] [He|Hi].
  - subst. exists b. auto.
  - destruct (IH q c H2 Hi) as [p [Hp1 Hp2]]. exists p. auto.
Qed.
End List2P.

Lemma existsP_impl {A} (P Q : A -> Prop) l :
  Forall (fun c => P c -> Q c) l -> existsP P l -> existsP Q l.
Proof. induction 1; simpl; tauto. Qed.
Lemma forallP_impl {A} (P Q : A -> Prop) l :
  Forall (fun c => P c -> Q c) l -> forallP P l -> forallP Q l.
Proof. induction 1; simpl; tauto. Qed.
Lemma forall2P_impl {A B} (P Q : A -> B -> Prop) l :
  Forall (fun c => forall p, P c p -> Q c p) l -> forall l', forall2P P l l' -> forall2P Q l l'.
Proof.
  induction 1 as [|c r Hc Hr IH]; intros [|p q]; simpl; try tauto.
  intros [H1 H2]. split; auto.
Qed.

(* ================================================================== generic loop lemmas *)
Lemma pick_last_some {A R} (sel : A -> bool) (f : A -> R) l o :
  pick_last sel f l = Some o -> exists c, In c l /\ sel c = true /\ o = f c.
Proof.
  induction l as [|c r IH]; simpl; [discriminate|].
  destruct (pick_last sel f r) as [o'|] eqn:E.
  - intros H; inversion H; subst. destruct (IH eq_refl) as [c' [H1 [H2 H3]]]. exists c'. auto.
  - destruct (sel c) eqn:Es; [|discriminate]. intros H; inversion H; subst. exists c. auto.
Qed.
Lemma pick_last_none {A R} (sel : A -> bool) (f : A -> R) l :
  (forall c, In c l -> sel c = false) -> pick_last sel f l = None.
Proof.
  induction l as [|c r IH]; simpl; [reflexivity|]. intros H.
  rewrite IH by (intros; apply H; auto). rewrite (H c) by auto. reflexivity.
Qed.
Lemma pick_first_some {A R} (sel : A -> bool) (f : A -> R) l o :
  pick_first sel f l = Some o -> exists c, In c l /\ sel c = true /\ o = f c.
Proof.
  induction l as [|c r IH]; simpl; [discriminate|].
  destruct (sel c) eqn:Es.
  - intros H; inversion H; subst. exists c. auto.
  - intros H. destruct (IH H) as [c' [H1 [H2 H3]]]. exists c'. auto.
Qed.
Lemma pick_first_exists {A R} (sel : A -> bool) (f : A -> R) l :
  existsb sel l = true -> exists c, In c l /\ sel c = true /\ pick_first sel f l = Some (f c).
Proof.
  induction l as [|c r IH]; simpl; [discriminate|].
  destruct (sel c) eqn:Es.
  - intros _. exists c. auto.
  - simpl. intros H. destruct (IH H) as [c' [H1 [H2 H3]]]. exists c'. auto.
Qed.

Section ThreadRel.
Context {A B S : Type} (R : S -> S -> Prop).
Hypothesis Rrefl : forall x, R x x.
Hypothesis Rtrans : forall x y z, R x y -> R y z -> R x z.
Lemma thread_all_rel (f : A -> S -> bool * S) l :
  Forall (fun c => forall x b x', f c x = (b, x') -> R x x') l ->
  forall x ok b x', thread_all f l x ok = (b, x') -> R x x'.
Proof.
  induction 1 as [|c r Hc Hr IH]; simpl; intros x ok b x' H.
  - inversion H; subst. apply Rrefl.
  - destruct (f c x) as [b1 x1] eqn:E. eapply Rtrans; [eapply Hc; eauto | eapply IH; eauto].
Qed.
Lemma thread_zip_rel (f : A -> B -> S -> bool * S) l :
  Forall (fun c => forall p x b x', f c p x = (b, x') -> R x x') l ->
  forall ps x b x', thread_zip f l ps x = (b, x') -> R x x'.
Proof.
  induction 1 as [|c r Hc Hr IH]; simpl; intros ps x b x' H.
  - inversion H; subst. apply Rrefl.
  - destruct ps as [|p q]; [inversion H; subst; apply Rrefl|].
    destruct (f c p x) as [b1 x1] eqn:E. destruct b1.
    + eapply Rtrans; [eapply Hc; eauto | eapply IH; eauto].
    + inversion H; subst. eapply Hc; eauto.
Qed.
End ThreadRel.

(* ================================================================== contexts and environments *)
Definition env := nat -> option attr.
Definition le_env (s s' : env) : Prop := forall n v, s n = Some v -> s' n = Some v.
Definition env_of (x : ctx) : env := fun n => cget x n.

Lemma le_env_refl s : le_env s s.
Proof. intros n v H; exact H. Qed.
Lemma le_env_trans s1 s2 s3 : le_env s1 s2 -> le_env s2 s3 -> le_env s1 s3.
Proof. intros H1 H2 n v H. apply H2, H1, H. Qed.

Lemma cget_cset_same x n a : cget (cset x n a) n = Some a.
Proof.
  induction x as [|[m v] r IH]; simpl.
  - now rewrite Nat.eqb_refl.
  - destruct (Nat.eqb m n) eqn:E; simpl; rewrite E; auto.
Qed.
Lemma cget_cset_other x n a m : m <> n -> cget (cset x n a) m = cget x m.
Proof.
  intros Hne. induction x as [|[k v] r IH]; simpl.
  - destruct (Nat.eqb n m) eqn:E; [apply Nat.eqb_eq in E; congruence | reflexivity].
  - destruct (Nat.eqb k n) eqn:E; simpl.
    + apply Nat.eqb_eq in E. subst k. destruct (Nat.eqb n m) eqn:E2; [apply Nat.eqb_eq in E2; congruence | reflexivity].
    + destruct (Nat.eqb k m); auto.
Qed.
Lemma cget_none_dom x n : cget x n = None <-> ~ In n (cdom x).
Proof.
  induction x as [|[m v] r IH]; simpl; [tauto|].
  destruct (Nat.eqb m n) eqn:E.
  - apply Nat.eqb_eq in E. split; [discriminate | intros H; exfalso; apply H; auto].
  - apply Nat.eqb_neq in E. rewrite IH. tauto.
Qed.
Lemma le_env_cset_fresh x n a : cget x n = None -> le_env (env_of x) (env_of (cset x n a)).
Proof.
  intros Hn m v H. unfold env_of in *. destruct (Nat.eq_dec m n) as [->|Hne]; [congruence|].
  now rewrite cget_cset_other.
Qed.

(* ================================================================== the specification *)
Section Spec.
Variable T : ctable.

(* [sat s c a]: attribute a is in the denotation of constraint c under the variable assignment s.
   union = some alternative, intersection = every conjunct, base = instance of the class,
   eq / set = equal to (one of) the value(s), param = instance of the class whose parameters are
   pointwise in the denotations of the parameter constraints, var = the assignment maps the
   variable to exactly this attribute and the attribute is in the inner denotation. *)
Fixpoint sat (s : env) (c : constr) (a : attr) {struct c} : Prop :=
  match c with
  | CAny => True
  | CBase k => inst T a k = true
  | CEq b => a = b
  | CSet vs => In a vs
  | CAnyOf cs => existsP (fun c => sat s c a) cs
  | CAllOf cs => forallP (fun c => sat s c a) cs
  | CParam k cs =>
      inst T a k = true /\
      match a with
      | Par _ ps => forall2P (fun c p => sat s c p) cs ps
      | Data _ _ => False
      end
  | CVar n c' => s n = Some a /\ sat s c' a
  | CMsg _ c' => sat s c' a
  | CTypeVar _ c' => sat s c' a
  end.

Lemma sat_mono s s' : le_env s s' -> forall c a, sat s c a -> sat s' c a.
Proof.
  intros Hle. induction c as [| k | e0 | vs | cs H | cs H | k cs H | n c IHc | m0 c IHc | i c IHc] using constr_ind2; intros a; simpl; auto.
  - apply existsP_impl. eapply Forall_impl; [|exact H]. intros c Hc. apply Hc.
  - apply forallP_impl. eapply Forall_impl; [|exact H]. intros c Hc. apply Hc.
  - intros [Hi Hp]. split; [assumption|]. destruct a as [|k' ps]; [assumption|].
    revert Hp. apply forall2P_impl. eapply Forall_impl; [|exact H]. intros c Hc p. apply Hc.
  - intros [H1 H2]. split; [apply Hle, H1 | apply IHc, H2].
Qed.

(* all variable names occurring in a constraint *)
Fixpoint allvars (c : constr) : list nat :=
  match c with
  | CVar n c' => n :: allvars c'
  | CAnyOf cs => flat_map (fun c => allvars c) cs
  | CAllOf cs => flat_map (fun c => allvars c) cs
  | CParam _ cs => flat_map (fun c => allvars c) cs
  | CMsg _ c' => allvars c'
  | CTypeVar _ c' => allvars c'
  | _ => []
  end.

(* well-named: every occurrence of variable n carries the inner constraint G n
   (the clause "n not in allvars c'" follows from the first for finite trees; it is kept explicit) *)
Fixpoint wn (G : nat -> constr) (c : constr) : Prop :=
  match c with
  | CVar n c' => G n = c' /\ ~ In n (allvars c') /\ wn G c'
  | CAnyOf cs => forallP (fun c => wn G c) cs
  | CAllOf cs => forallP (fun c => wn G c) cs
  | CParam _ cs => forallP (fun c => wn G c) cs
  | CMsg _ c' => wn G c'
  | CTypeVar _ c' => wn G c'
  | _ => True
  end.

(* a context is consistent when every bound value is in the denotation of its variable's constraint *)
Definition ctx_ok (G : nat -> constr) (x : ctx) : Prop :=
  forall n v, cget x n = Some v -> sat (env_of x) (G n) v.

Lemma ctx_ok_nil G : ctx_ok G [].
Proof. intros n v H. discriminate. Qed.

(* ================================================================== verify only extends the context *)
Lemma verify_ext : forall c a x b x',
  verify T c a x = (b, x') -> le_env (env_of x) (env_of x').
Proof.
  induction c as [| k | e0 | vs | cs H | cs H | k cs H | n c IHc | m0 c IHc | i c IHc] using constr_ind2; intros a x b x' Hv; simpl in Hv;
    try (inversion Hv; subst; apply le_env_refl); eauto.
  - (* AnyOf *)
    destruct (pick_last (owns T a) (fun c => verify T c a x) cs) as [o|] eqn:E.
    + apply pick_last_some in E as [c [Hi [_ Ho]]]. subst o.
      rewrite Forall_forall in H. eapply H; eauto.
    + destruct (find_abstract T cs) as [[]|]; inversion Hv; subst; apply le_env_refl.
  - (* AllOf *)
    revert Hv. apply (thread_all_rel (fun x x' => le_env (env_of x) (env_of x'))).
    + intros; apply le_env_refl.
    + intros; eapply le_env_trans; eauto.
    + eapply Forall_impl; [|exact H]. intros c Hc y b1 y' Hy. eapply Hc; eauto.
  - (* Param *)
    destruct (negb (inst T a k)); [inversion Hv; subst; apply le_env_refl|].
    destruct a as [|k' ps]; [inversion Hv; subst; apply le_env_refl|].
    destruct (negb (length cs =? length ps)); [inversion Hv; subst; apply le_env_refl|].
    revert Hv. apply (thread_zip_rel (fun x x' => le_env (env_of x) (env_of x'))).
    + intros; apply le_env_refl.
    + intros; eapply le_env_trans; eauto.
    + eapply Forall_impl; [|exact H]. intros c Hc p y b1 y' Hy. eapply Hc; eauto.
  - (* Var *)
    destruct (cget x n) as [v|] eqn:Eg; [inversion Hv; subst; apply le_env_refl|].
    destruct (verify T c a x) as [b1 x1] eqn:E1. specialize (IHc _ _ _ _ E1).
    destruct b1; inversion Hv; subst; [|assumption].
    intros m v Hm. unfold env_of in *. destruct (Nat.eq_dec m n) as [->|Hne]; [congruence|].
    rewrite cget_cset_other by assumption. apply IHc, Hm.
Qed.

(* frame: variables not occurring in the constraint are untouched *)
Lemma verify_frame : forall c a x b x' m,
  verify T c a x = (b, x') -> ~ In m (allvars c) -> cget x' m = cget x m.
Proof.
  induction c as [| k | e0 | vs | cs H | cs H | k cs H | n c IHc | m0 c IHc | i c IHc] using constr_ind2; intros a x b x' m Hv Hm; simpl in Hv, Hm;
    try (inversion Hv; subst; reflexivity); eauto.
  - destruct (pick_last (owns T a) (fun c => verify T c a x) cs) as [o|] eqn:E.
    + apply pick_last_some in E as [c [Hi [_ Ho]]]. subst o.
      rewrite Forall_forall in H. eapply H; eauto.
      intros Hc. apply Hm. apply in_flat_map. exists c. auto.
    + destruct (find_abstract T cs) as [[]|]; inversion Hv; subst; reflexivity.
  - revert Hv. apply (thread_all_rel (fun x x' => cget x' m = cget x m)); try congruence.
    rewrite Forall_forall in *. intros c Hi y b1 y' Hy. eapply H; eauto.
    intros Hc. apply Hm. apply in_flat_map. exists c. auto.
  - destruct (negb (inst T a k)); [inversion Hv; subst; reflexivity|].
    destruct a as [|k' ps]; [inversion Hv; subst; reflexivity|].
    destruct (negb (length cs =? length ps)); [inversion Hv; subst; reflexivity|].
    revert Hv. apply (thread_zip_rel (fun x x' => cget x' m = cget x m)); try congruence.
    rewrite Forall_forall in *. intros c Hi p y b1 y' Hy. eapply H; eauto.
    intros Hc. apply Hm. apply in_flat_map. exists c. auto.
  - destruct (cget x n) as [v|] eqn:Eg; [inversion Hv; subst; reflexivity|].
    destruct (verify T c a x) as [b1 x1] eqn:E1.
    assert (Hx1 : cget x1 m = cget x m) by (eapply IHc; eauto).
    destruct b1; inversion Hv; subst; [|assumption].
    rewrite cget_cset_other by (intros ->; apply Hm; auto). assumption.
Qed.

(* ================================================================== soundness of verify *)
Lemma thread_all_false {A S} (f : A -> S -> bool * S) l :
  forall x b x', thread_all f l x false = (b, x') -> b = false.
Proof.
  induction l as [|c r IH]; simpl; intros x b x' H.
  - now inversion H.
  - destruct (f c x) as [b1 x1]. simpl in H. eauto.
Qed.

Definition sound_at (G : nat -> constr) (c : constr) : Prop :=
  wn G c -> forall a x x', ctx_ok G x -> verify T c a x = (true, x') ->
  sat (env_of x') c a /\ ctx_ok G x'.

Lemma verify_ext_all a cs :
  forall x ok b x', thread_all (fun c x => verify T c a x) cs x ok = (b, x') ->
  le_env (env_of x) (env_of x').
Proof.
  apply (thread_all_rel (fun x x' => le_env (env_of x) (env_of x'))).
  - intros; apply le_env_refl.
  - intros; eapply le_env_trans; eauto.
  - apply Forall_forall. intros c _ z b z' Hz. eapply verify_ext; eauto.
Qed.
Lemma verify_ext_zip cs :
  forall ps x b x', thread_zip (fun c p x => verify T c p x) cs ps x = (b, x') ->
  le_env (env_of x) (env_of x').
Proof.
  apply (thread_zip_rel (fun x x' => le_env (env_of x) (env_of x'))).
  - intros; apply le_env_refl.
  - intros; eapply le_env_trans; eauto.
  - apply Forall_forall. intros c _ p z b z' Hz. eapply verify_ext; eauto.
Qed.

Lemma allof_sound G a cs :
  Forall (sound_at G) cs -> forallP (fun c => wn G c) cs ->
  forall ok x x', ctx_ok G x -> thread_all (fun c x => verify T c a x) cs x ok = (true, x') ->
  ok = true /\ forallP (fun c => sat (env_of x') c a) cs /\ ctx_ok G x'.
Proof.
  induction 1 as [|c r Hc Hr IH]; simpl; intros Hw ok x x' Hok Ht.
  - inversion Ht; subst; auto.
  - destruct Hw as [Hw1 Hw2]. destruct (verify T c a x) as [b1 x1] eqn:E1.
    pose proof (verify_ext_all _ _ _ _ _ _ Ht) as Hext.
    destruct b1.
    + destruct (Hc Hw1 a x x1 Hok E1) as [S1 O1].
      destruct (IH Hw2 _ _ _ O1 Ht) as [Hok' [Hf Ho']].
      rewrite andb_true_r in Hok'. split; [assumption|]. split; [|assumption].
      split; [eapply sat_mono; eauto | assumption].
    + rewrite andb_false_r in Ht. apply thread_all_false in Ht. discriminate.
Qed.

Lemma param_sound G cs :
  Forall (sound_at G) cs -> forallP (fun c => wn G c) cs ->
  forall ps x x', ctx_ok G x -> length cs = length ps ->
  thread_zip (fun c p x => verify T c p x) cs ps x = (true, x') ->
  forall2P (fun c p => sat (env_of x') c p) cs ps /\ ctx_ok G x'.
Proof.
  induction 1 as [|c r Hc Hr IH]; simpl; intros Hw ps x x' Hok Hlen Ht.
  - destruct ps; [|discriminate]. inversion Ht; subst. simpl. auto.
  - destruct ps as [|p q]; [discriminate|]. destruct Hw as [Hw1 Hw2].
    destruct (verify T c p x) as [b1 x1] eqn:E1. destruct b1; [|discriminate].
    pose proof (verify_ext_zip _ _ _ _ _ Ht) as Hext.
    destruct (Hc Hw1 p x x1 Hok E1) as [S1 O1].
    destruct (IH Hw2 q x1 x' O1 (eq_add_S _ _ Hlen) Ht) as [Hf Ho'].
    simpl. split; [|assumption]. split; [eapply sat_mono; eauto | assumption].
Qed.

Lemma verify_sound G : forall c, sound_at G c.
Proof.
  induction c as [| k | e0 | vs | cs H | cs H | k cs H | n c IHc | m0 c IHc | i c IHc] using constr_ind2;
    intros Hw a x x' Hok Hv; simpl in Hw, Hv |- *.
  - inversion Hv; subst; auto.
  - inversion Hv; subst; auto.
  - inversion Hv; subst. split; [apply attr_eqb_eq|]; assumption.
  - inversion Hv; subst. split; [apply mem_attr_In|]; assumption.
  - destruct (pick_last (owns T a) (fun c => verify T c a x) cs) as [o|] eqn:E.
    + apply pick_last_some in E as [c [Hi [_ Ho]]]. subst o.
      rewrite Forall_forall in H. rewrite forallP_In in Hw.
      destruct (H c Hi (Hw c Hi) a x x' Hok Hv) as [S1 O1]. split; [|assumption].
      apply existsP_In. exists c. auto.
    + destruct (find_abstract T cs) as [c0|] eqn:Ef; [|inversion Hv].
      destruct c0; try (inversion Hv; fail). inversion Hv; subst.
      unfold find_abstract in Ef. apply pick_first_some in Ef as [c [Hi [_ Ho]]]. subst c.
      split; [|assumption]. apply existsP_In. exists (CBase k). split; [assumption|]. simpl. assumption.
  - destruct (allof_sound G a cs H Hw true x x' Hok Hv) as [_ [Hf Ho]]. auto.
  - destruct (negb (inst T a k)) eqn:Ei; [discriminate|]. apply negb_false_iff in Ei.
    destruct a as [|k' ps]; [discriminate|].
    destruct (negb (length cs =? length ps)) eqn:El; [discriminate|].
    apply negb_false_iff in El. apply Nat.eqb_eq in El.
    destruct (param_sound G cs H Hw ps x x' Hok El Hv) as [Hf Ho]. auto.
  - destruct Hw as [HG [Hn Hw']]. destruct (cget x n) as [v|] eqn:Eg.
    + inversion Hv; subst. apply attr_eqb_eq in H0. subst v.
      split; [|assumption]. split; [exact Eg|]. apply Hok. assumption.
    + destruct (verify T c a x) as [b1 x1] eqn:E1. destruct b1; [|discriminate].
      inversion Hv; subst. destruct (IHc Hw' a x x1 Hok E1) as [S1 O1].
      assert (Hfresh : cget x1 n = None)
        by (rewrite (verify_frame _ _ _ _ _ n E1 Hn); assumption).
      pose proof (le_env_cset_fresh x1 n a Hfresh) as Hle.
      split; [split|].
      * unfold env_of. apply cget_cset_same.
      * eapply sat_mono; eauto.
      * intros m v Hm. destruct (Nat.eq_dec m n) as [->|Hne].
        -- rewrite cget_cset_same in Hm. inversion Hm; subst. eapply sat_mono; eauto.
        -- rewrite cget_cset_other in Hm by assumption. eapply sat_mono; [exact Hle|].
           apply O1. assumption.
  - eauto.
  - eauto.
Qed.

(* ================================================================== get_bases is sound *)
Hypothesis Hfinal : forall k k', final T k = true -> sub T k' k = true -> k' = k.

Lemma bases_union_In (f : constr -> option (list nat)) l :
  forall b, bases_union f l = Some b -> forall c bc, In c l -> f c = Some bc -> incl bc b.
Proof.
  induction l as [|c0 r IH]; simpl; intros b Hb c bc Hi Hf; [destruct Hi|].
  destruct (f c0) as [b0|] eqn:E1; [|discriminate].
  destruct (bases_union f r) as [b'|] eqn:E2; [|discriminate].
  inversion Hb; subst. destruct Hi as [->|Hi].
  - rewrite E1 in Hf; inversion Hf; subst. apply incl_appl, incl_refl.
  - apply incl_appr. eapply IH; eauto.
Qed.
Lemma bases_union_all (f : constr -> option (list nat)) l :
  forall b, bases_union f l = Some b -> forall c, In c l -> f c <> None.
Proof.
  induction l as [|c0 r IH]; simpl; intros b Hb c Hi; [destruct Hi|].
  destruct (f c0) as [b0|] eqn:E1; [|discriminate].
  destruct (bases_union f r) as [b'|] eqn:E2; [|discriminate].
  destruct Hi as [->|Hi]; [congruence | eapply IH; eauto].
Qed.
Lemma bases_inter_sound (f : constr -> option (list nat)) (k : nat) l :
  (forall c bc, In c l -> f c = Some bc -> In k bc) ->
  forall acc b, (forall b0, acc = Some b0 -> In k b0) -> bases_inter f l acc = Some b -> In k b.
Proof.
  induction l as [|c0 r IH]; simpl; intros Hl acc b Hacc Hb.
  - apply Hacc; assumption.
  - destruct (f c0) as [b0|] eqn:E.
    + eapply IH; [| |exact Hb].
      * intros; eapply Hl; eauto.
      * intros b1 Hb1. destruct acc as [a0|]; inversion Hb1; subst.
        -- apply inter_In. split; [apply Hacc; reflexivity | eapply Hl; eauto].
        -- eapply Hl; eauto.
    + eapply IH; eauto.
Qed.

Lemma bases_sound : forall c s a b, sat s c a -> bases T c = Some b -> In (cls a) b.
Proof.
  induction c as [| k | e0 | vs | cs H | cs H | k cs H | n c IHc | m0 c IHc | i c IHc] using constr_ind2;
    intros s a b Hs Hb; simpl in Hs, Hb.
  - discriminate.
  - destruct (final T k) eqn:Ef; inversion Hb; subst. left. symmetry. apply (Hfinal k (cls a)); assumption.
  - inversion Hb; subst. left. reflexivity.
  - inversion Hb; subst. apply in_map. assumption.
  - apply existsP_In in Hs as [c [Hi Hc]]. rewrite Forall_forall in H.
    destruct (bases T c) as [bc|] eqn:Ec.
    + eapply (bases_union_In (fun c => bases T c)); eauto.
    + exfalso. eapply (bases_union_all (fun c => bases T c)); eauto.
  - rewrite forallP_In in Hs. rewrite Forall_forall in H.
    eapply (bases_inter_sound (fun c => bases T c)); [| |exact Hb].
    + intros c bc Hi Hf. eapply H; eauto.
    + intros b0 Hb0; discriminate.
  - destruct Hs as [Hi _]. destruct (final T k) eqn:Ef; inversion Hb; subst.
    left. symmetry. apply (Hfinal k (cls a)); assumption.
  - destruct Hs; eauto.
  - eauto.
  - eauto.
Qed.

(* ================================================================== AnyOf.__init__ facts *)
Lemma scan_abstr_some : forall cs keys c0 keys' ab,
  anyof_scan T cs keys (Some c0) = Ok (keys', ab) ->
  ab = Some c0 /\ forall c, In c cs -> bases T c <> None.
Proof.
  induction cs as [|c r IH]; simpl; intros keys c0 keys' ab Hsc.
  - inversion Hsc; subst. split; [reflexivity | intros c []].
  - destruct (bases T c) as [b|] eqn:Eb; [|discriminate].
    destruct (existsb (fun k => memn k keys) b); [discriminate|].
    apply IH in Hsc as [H1 H2]. split; [assumption|].
    intros c' [<-|Hi]; [congruence | auto].
Qed.

Lemma scan_disjoint : forall cs keys abstr r, anyof_scan T cs keys abstr = Ok r ->
  forall c b k, In c cs -> bases T c = Some b -> In k b -> ~ In k keys.
Proof.
  induction cs as [|c0 rest IH]; simpl; intros keys abstr r Hsc c b k Hi Hb Hk; [destruct Hi|].
  destruct (bases T c0) as [b0|] eqn:Eb0.
  - destruct (existsb (fun k => memn k keys) b0) eqn:Ex; [discriminate|].
    destruct Hi as [->|Hi].
    + rewrite Eb0 in Hb; inversion Hb; subst. intros Hin.
      assert (Ht : existsb (fun k => memn k keys) b = true)
        by (apply existsb_exists; exists k; split; [assumption | apply memn_In; assumption]).
      congruence.
    + intros Hin. eapply IH; eauto. apply in_or_app; left; assumption.
  - destruct abstr; [discriminate|]. destruct (is_abstract_base T c0); [|discriminate].
    destruct Hi as [->|Hi]; [congruence|]. eapply IH; eauto.
Qed.

Lemma scan_keys : forall cs keys abstr keys' ab, anyof_scan T cs keys abstr = Ok (keys', ab) ->
  incl keys keys' /\ forall c b, In c cs -> bases T c = Some b -> incl b keys'.
Proof.
  induction cs as [|c0 rest IH]; simpl; intros keys abstr keys' ab Hsc.
  - inversion Hsc; subst. split; [apply incl_refl | intros c b []].
  - destruct (bases T c0) as [b0|] eqn:Eb0.
    + destruct (existsb (fun k => memn k keys) b0); [discriminate|].
      apply IH in Hsc as [H1 H2]. split.
      * intros k Hk. apply H1. apply in_or_app; left; assumption.
      * intros c b [<-|Hi] Hb.
        -- rewrite Eb0 in Hb; inversion Hb; subst. intros k Hk. apply H1. apply in_or_app; right; assumption.
        -- eapply H2; eauto.
    + destruct abstr; [discriminate|]. destruct (is_abstract_base T c0); [|discriminate].
      apply IH in Hsc as [H1 H2]. split; [assumption|].
      intros c b [<-|Hi] Hb; [congruence | eapply H2; eauto].
Qed.

Lemma scan_none : forall cs keys keys' ab, anyof_scan T cs keys None = Ok (keys', ab) ->
  forall c, In c cs -> bases T c = None ->
  ab = Some c /\ is_abstract_base T c = true /\ find_abstract T cs = Some c.
Proof.
  induction cs as [|c0 rest IH]; simpl; intros keys keys' ab Hsc c Hi Hb; [destruct Hi|].
  destruct (bases T c0) as [b0|] eqn:Eb0.
  - destruct (existsb (fun k => memn k keys) b0); [discriminate|].
    destruct Hi as [->|Hi]; [congruence|].
    destruct (IH _ _ _ Hsc c Hi Hb) as [H1 [H2 H3]]. split; [assumption|]. split; [assumption|].
    unfold find_abstract in *. simpl. unfold has_bases at 1. rewrite Eb0. simpl. exact H3.
  - destruct (is_abstract_base T c0) eqn:Ea; [|discriminate].
    apply scan_abstr_some in Hsc as [H1 H2]. destruct Hi as [->|Hi].
    + split; [assumption|]. split; [assumption|].
      unfold find_abstract. simpl. unfold has_bases. rewrite Hb. reflexivity.
    + exfalso. eapply H2; eauto.
Qed.

Lemma pick_last_owner {R} : forall cs keys abstr r a c (f : constr -> R),
  anyof_scan T cs keys abstr = Ok r -> In c cs -> owns T a c = true ->
  pick_last (owns T a) f cs = Some (f c).
Proof.
  induction cs as [|c0 rest IH]; simpl; intros keys abstr r a c f Hsc Hi Ho; [destruct Hi|].
  destruct (bases T c0) as [b0|] eqn:Eb0.
  - destruct (existsb (fun k => memn k keys) b0) eqn:Ex; [discriminate|].
    destruct Hi as [->|Hi].
    + rewrite pick_last_none; [rewrite Ho; reflexivity|].
      intros c' Hi'. destruct (owns T a c') eqn:Eo'; [|reflexivity]. exfalso.
      unfold owns in Ho, Eo'. rewrite Eb0 in Ho.
      destruct (bases T c') as [b'|] eqn:Eb'; [|discriminate].
      apply memn_In in Ho. apply memn_In in Eo'.
      eapply (scan_disjoint rest (keys ++ b0)); eauto. apply in_or_app; right; assumption.
    + erewrite IH; eauto.
  - destruct abstr; [discriminate|]. destruct (is_abstract_base T c0); [|discriminate].
    destruct Hi as [->|Hi].
    + unfold owns in Ho. rewrite Eb0 in Ho. discriminate.
    + erewrite IH; eauto.
Qed.

(* ================================================================== completeness of verify *)
Definition complete_at (c : constr) : Prop :=
  constructible T c = true -> forall a x s,
  le_env (env_of x) s -> sat s c a ->
  exists x', verify T c a x = (true, x') /\ le_env (env_of x') s.

Lemma allof_complete a s cs :
  Forall complete_at cs -> forallb (fun c => constructible T c) cs = true ->
  forallP (fun c => sat s c a) cs ->
  forall x, le_env (env_of x) s ->
  exists x', thread_all (fun c x => verify T c a x) cs x true = (true, x') /\ le_env (env_of x') s.
Proof.
  induction 1 as [|c r Hc Hr IH]; simpl; intros Hcs Hs x Hle.
  - eauto.
  - apply andb_true_iff in Hcs as [Hc1 Hc2]. destruct Hs as [Hs1 Hs2].
    destruct (Hc Hc1 a x s Hle Hs1) as [x1 [E1 L1]]. rewrite E1. simpl. apply IH; assumption.
Qed.

Lemma param_complete s cs :
  Forall complete_at cs -> forallb (fun c => constructible T c) cs = true ->
  forall ps, forall2P (fun c p => sat s c p) cs ps ->
  forall x, le_env (env_of x) s ->
  exists x', thread_zip (fun c p x => verify T c p x) cs ps x = (true, x') /\ le_env (env_of x') s.
Proof.
  induction 1 as [|c r Hc Hr IH]; simpl; intros Hcs ps Hs x Hle.
  - eauto.
  - destruct ps as [|p q]; [destruct Hs|].
    apply andb_true_iff in Hcs as [Hc1 Hc2]. destruct Hs as [Hs1 Hs2].
    destruct (Hc Hc1 p x s Hle Hs1) as [x1 [E1 L1]]. rewrite E1. apply IH; assumption.
Qed.

Lemma verify_complete : forall c, complete_at c.
Proof.
  induction c as [| k | e0 | vs | cs H | cs H | k cs H | n c IHc | m0 c IHc | i c IHc] using constr_ind2;
    intros Hc a x s Hle Hs; simpl in Hc, Hs |- *.
  - eauto.
  - exists x. rewrite Hs. auto.
  - exists x. subst. rewrite attr_eqb_refl. auto.
  - exists x. apply mem_attr_In in Hs. rewrite Hs. auto.
  - (* AnyOf *)
    apply andb_true_iff in Hc as [Hc1 Hc2].
    destruct (anyof_init T cs) as [u|] eqn:Einit; [|discriminate]. unfold anyof_init in Einit.
    destruct (anyof_scan T cs [] None) as [[keys ab]|] eqn:Esc; [|discriminate].
    apply existsP_In in Hs as [c [Hi Hsc]].
    rewrite Forall_forall in H. rewrite forallb_forall in Hc1.
    destruct (bases T c) as [b|] eqn:Eb.
    + assert (Ho : owns T a c = true).
      { unfold owns. rewrite Eb. apply memn_In. eapply bases_sound; eauto. }
      rewrite (pick_last_owner cs [] None _ a c _ Esc Hi Ho).
      apply (H c Hi (Hc1 c Hi) a x s Hle Hsc).
    + destruct (scan_none _ _ _ _ Esc c Hi Eb) as [Hab [Habs Hfind]].
      destruct c; simpl in Habs; try discriminate. simpl in Hsc.
      rewrite pick_last_none.
      * rewrite Hfind. rewrite Hsc. eauto.
      * intros c' Hi'. destruct (owns T a c') eqn:Eo; [|reflexivity]. exfalso.
        unfold owns in Eo. destruct (bases T c') as [b'|] eqn:Eb'; [|discriminate].
        apply memn_In in Eo. destruct (scan_keys _ _ _ _ _ Esc) as [_ Hk].
        specialize (Hk c' b' Hi' Eb' _ Eo). subst ab.
        assert (Hex : existsb (fun b0 => sub T b0 k) keys = true)
          by (apply existsb_exists; exists (cls a); split; assumption).
        rewrite Hex in Einit. discriminate.
  - apply (allof_complete a s cs H Hc Hs x Hle).
  - destruct Hs as [Hi Hp]. rewrite Hi. simpl. destruct a as [|k' ps]; [destruct Hp|].
    rewrite (forall2P_length _ _ _ Hp). rewrite Nat.eqb_refl. simpl.
    apply (param_complete s cs H Hc ps Hp x Hle).
  - destruct Hs as [Hn Hs']. destruct (cget x n) as [v|] eqn:Eg.
    + apply Hle in Eg. rewrite Hn in Eg. inversion Eg; subst. rewrite attr_eqb_refl. eauto.
    + destruct (IHc Hc a x s Hle Hs') as [x1 [E1 L1]]. rewrite E1.
      exists (cset x1 n a). split; [reflexivity|].
      intros m v Hm. unfold env_of in Hm. destruct (Nat.eq_dec m n) as [->|Hne].
      * rewrite cget_cset_same in Hm. congruence.
      * rewrite cget_cset_other in Hm by assumption. apply L1. assumption.
  - eauto.
  - eauto.
Qed.

(* ================================================================== variables() *)
Lemma fold_intern_In n (r : list constr) : forall v0,
  In n (fold_left (fun acc c => intern acc (variables c)) r v0) ->
  In n v0 /\ forall c, In c r -> In n (variables c).
Proof.
  induction r as [|c r IH]; simpl; intros v0 Hn.
  - split; [assumption | intros c []].
  - apply IH in Hn as [H1 H2]. unfold intern in H1. apply filter_In in H1 as [H1 H3].
    apply memn_In in H3. split; [assumption|]. intros c' [<-|Hi]; auto.
Qed.

Lemma sat_variables : forall c s a, sat s c a -> forall n, In n (variables c) -> s n <> None.
Proof.
  induction c as [| k | e0 | vs | cs H | cs H | k cs H | n0 c IHc | m0 c IHc | i c IHc] using constr_ind2;
    intros s a Hs n Hn; simpl in Hs, Hn; try (destruct Hn; fail).
  - destruct cs as [|c0 r]; [destruct Hn|].
    apply fold_intern_In in Hn as [H1 H2].
    apply existsP_In in Hs as [c [Hi Hc]]. rewrite Forall_forall in H.
    destruct Hi as [<-|Hi]; [eapply H; simpl; eauto | eapply H; simpl; eauto].
  - apply in_flat_map in Hn as [c [Hi Hc]]. rewrite forallP_In in Hs. rewrite Forall_forall in H.
    eapply H; eauto.
  - apply in_flat_map in Hn as [c [Hi Hc]]. destruct Hs as [_ Hp]. destruct a as [|k' ps]; [destruct Hp|].
    destruct (forall2P_In _ _ _ _ Hp Hi) as [p [_ Hsp]]. rewrite Forall_forall in H. eapply H; eauto.
  - destruct Hs as [H1 H2]. apply in_app_or in Hn as [Hn|[<-|[]]]; [eauto | congruence].
  - eauto.
Qed.

(* ================================================================== can_infer / infer *)
(* validity of an attribute value: every parametrized node passes its class's `new` *)
Fixpoint valid_attr (a : attr) : Prop :=
  match a with
  | Data k _ => isparam T k = false
  | Par k ps => forallP (fun p => valid_attr p) ps /\ new_attr T k ps = Ok (Par k ps)
  end.

Lemma new_attr_length k ps a : new_attr T k ps = Ok a -> length (cdef T k) = length ps.
Proof.
  unfold new_attr. destruct (negb (length (cdef T k) =? length ps)) eqn:E; [discriminate|].
  intros _. apply negb_false_iff in E. now apply Nat.eqb_eq.
Qed.

Lemma mapM_infer_unique s x cs :
  Forall (fun c => forall a, can_infer T c (cdom x) = true -> valid_attr a -> sat s c a ->
                             infer T c x = Ok a) cs ->
  forallb (fun c => can_infer T c (cdom x)) cs = true ->
  forall ps, forallP (fun p => valid_attr p) ps -> forall2P (fun c p => sat s c p) cs ps ->
  mapM (fun c => infer T c x) cs = Ok ps.
Proof.
  induction 1 as [|c r Hc Hr IH]; simpl; intros Hci ps Hv Hs.
  - destruct ps; [reflexivity | destruct Hs].
  - destruct ps as [|p q]; [destruct Hs|]. apply andb_true_iff in Hci as [H1 H2].
    destruct Hv as [Hv1 Hv2]. destruct Hs as [Hs1 Hs2].
    rewrite (Hc p H1 Hv1 Hs1). simpl. rewrite (IH H2 q Hv2 Hs2). reflexivity.
Qed.

(* whenever can_infer holds, at most one valid attribute satisfies the constraint in the
   context, and infer returns it *)
Lemma infer_unique s x : le_env (env_of x) s -> forall c a,
  can_infer T c (cdom x) = true -> valid_attr a -> sat s c a -> infer T c x = Ok a.
Proof.
  intros Hle.
  induction c as [| k | e0 | vs | cs H | cs H | k cs H | n c IHc | m0 c IHc | i c IHc] using constr_ind2;
    intros a Hci Hv Hs; simpl in Hci, Hs |- *; try discriminate.
  - apply andb_true_iff in Hci as [Hci Har]. apply andb_true_iff in Hci as [Hf Hp].
    apply Nat.eqb_eq in Har. rewrite Hp, Hf. simpl.
    assert (Hk : cls a = k) by (apply (Hfinal k (cls a)); assumption).
    destruct a as [k' d|k' ps]; simpl in Hk, Hv; subst k'.
    + congruence.
    + destruct Hv as [_ Hnew]. pose proof (new_attr_length _ _ _ Hnew) as Hl.
      rewrite Har in Hl. destruct ps; [assumption | discriminate].
  - congruence.
  - apply (pick_first_exists _ (fun c => infer T c x)) in Hci as [c [Hi [Hc Hp]]].
    rewrite Hp. rewrite Forall_forall in H. rewrite forallP_In in Hs. apply H; auto.
  - apply andb_true_iff in Hci as [Hf Hall]. destruct Hs as [Hi Hp].
    assert (Hk : cls a = k) by (apply (Hfinal k (cls a)); assumption).
    destruct a as [k' d|k' ps]; [destruct Hp|]. simpl in Hk, Hv. subst k'. destruct Hv as [Hv Hnew].
    rewrite (mapM_infer_unique s x cs H Hall ps Hv Hp). simpl. exact Hnew.
  - destruct Hs as [Hn Hs']. destruct (cget x n) as [v|] eqn:Eg.
    + apply Hle in Eg. congruence.
    + apply cget_none_dom in Eg. apply memn_false in Eg. rewrite Eg in Hci. simpl in Hci. auto.
  - auto.
Qed.

End Spec.

(* ================================================================== top-level statements *)
(* the only fact about the class table the theorems need: a runtime-final class has no proper
   subclass (python: runtime_final.__init_subclass__ raises) *)
Definition final_leaf (T : ctable) : Prop :=
  forall k k', final T k = true -> sub T k' k = true -> k' = k.

(* verify accepts exactly the denotation, and returns the least assignment *)
Theorem verify_denotes T (Hf : final_leaf T) G c a x :
  constructible T c = true -> wn G c -> ctx_ok T G x ->
  (verify_opt T c a x <> None <-> exists s, le_env (env_of x) s /\ sat T s c a) /\
  (forall x', verify_opt T c a x = Some x' ->
     le_env (env_of x) (env_of x') /\ sat T (env_of x') c a /\ ctx_ok T G x' /\
     forall s, le_env (env_of x) s -> sat T s c a -> le_env (env_of x') s).
Proof.
  intros Hc Hw Hok. unfold verify_opt. destruct (verify T c a x) as [b x1] eqn:E. destruct b.
  - destruct (verify_sound T G c Hw a x x1 Hok E) as [S1 O1].
    pose proof (verify_ext T c a x true x1 E) as Hext. split.
    + split; [intros _; exists (env_of x1); auto | intros _; discriminate].
    + intros x' Hx'. inversion Hx'; subst. repeat split; auto.
      intros s Hle Hs. destruct (verify_complete T Hf c Hc a x s Hle Hs) as [x2 [E2 L2]].
      rewrite E in E2. inversion E2; subst. assumption.
  - split.
    + split; [intros Hn; exfalso; apply Hn; reflexivity|].
      intros [s [Hle Hs]]. destruct (verify_complete T Hf c Hc a x s Hle Hs) as [x2 [E2 _]].
      rewrite E in E2. discriminate.
    + intros x' Hx'. discriminate.
Qed.

Corollary verifies_denotes T (Hf : final_leaf T) G c a :
  constructible T c = true -> wn G c -> (verifies T c a = true <-> exists s, sat T s c a).
Proof.
  intros Hc Hw. destruct (verify_denotes T Hf G c a [] Hc Hw (ctx_ok_nil T G)) as [H1 _].
  unfold verifies, verify_opt in *. destruct (verify T c a []) as [b x1]. simpl. split.
  - intros ->. destruct (proj1 H1) as [s [_ Hs]]; [discriminate | eauto].
  - intros [s Hs]. destruct b; [reflexivity|]. exfalso. apply (proj2 H1); [|reflexivity].
    exists s. split; [intros n v Hn; discriminate | assumption].
Qed.

Theorem bases_sound_verify T (Hf : final_leaf T) G c a x x' b :
  wn G c -> ctx_ok T G x -> verify_opt T c a x = Some x' -> bases T c = Some b -> In (cls a) b.
Proof.
  intros Hw Hok Hv Hb. unfold verify_opt in Hv. destruct (verify T c a x) as [b0 x1] eqn:E.
  destruct b0; [|discriminate]. inversion Hv; subst.
  destruct (verify_sound T G c Hw a x x' Hok E) as [S1 _].
  eapply (bases_sound T Hf); eauto.
Qed.

Theorem var_consistent T G c a x :
  (forall b x', verify T c a x = (b, x') -> le_env (env_of x) (env_of x')) /\
  (wn G c -> ctx_ok T G x -> forall x', verify_opt T c a x = Some x' ->
     (forall n, In n (variables c) -> cget x' n <> None) /\ sat T (env_of x') c a).
Proof.
  split; [intros b x' H; eapply verify_ext; eauto|].
  intros Hw Hok x' Hv. unfold verify_opt in Hv. destruct (verify T c a x) as [b0 x1] eqn:E.
  destruct b0; [|discriminate]. inversion Hv; subst.
  destruct (verify_sound T G c Hw a x x' Hok E) as [S1 _]. split; [|assumption].
  intros n Hn. apply (sat_variables T c (env_of x') a S1 n Hn).
Qed.

Theorem infer_satisfies_partial T (Hf : final_leaf T) c x s a :
  constructible T c = true -> can_infer T c (cdom x) = true ->
  le_env (env_of x) s -> valid_attr T a -> sat T s c a ->
  infer T c x = Ok a /\ exists x', verify T c a x = (true, x').
Proof.
  intros Hc Hci Hle Hv Hs. split.
  - apply (infer_unique T Hf s x Hle c a Hci Hv Hs).
  - destruct (verify_complete T Hf c Hc a x s Hle Hs) as [x' [E _]]. eauto.
Qed.
