(* C09/ProofsGet.v -- AnyOf.get / `|` / relax_constraint / ParamAttrConstraint.get preserve the
   denotation, never run out of fuel and keep constructibility; hint-derived constraints agree
   with isa. *)
From Coq Require Import List Arith ZArith Bool Lia.
From XV Require Import C09.Model C09.Proofs.
Import ListNotations.

Lemma existsP_app {A} (P : A -> Prop) l l' : existsP P (l ++ l') <-> existsP P l \/ existsP P l'.
Proof. induction l as [|x r IH]; simpl; [tauto | rewrite IH; tauto]. Qed.

Lemma forall2b_existsP {A} (f : A -> A -> bool) (P Q : A -> Prop) l :
  Forall (fun x => forall y, f x y = true -> (P x <-> Q y)) l ->
  forall l', forall2b f l l' = true -> (existsP P l <-> existsP Q l').
Proof.
  induction 1 as [|x r Hx Hr IH]; intros [|y r']; simpl; intros H; try discriminate.
  - tauto.
  - apply andb_true_iff in H as [H1 H2]. rewrite (Hx y H1). rewrite (IH r' H2). tauto.
Qed.
Lemma forall2b_forallP {A} (f : A -> A -> bool) (P Q : A -> Prop) l :
  Forall (fun x => forall y, f x y = true -> (P x <-> Q y)) l ->
  forall l', forall2b f l l' = true -> (forallP P l <-> forallP Q l').
Proof.
  induction 1 as [|x r Hx Hr IH]; intros [|y r']; simpl; intros H; try discriminate.
  - tauto.
  - apply andb_true_iff in H as [H1 H2]. rewrite (Hx y H1). rewrite (IH r' H2). tauto.
Qed.
Lemma forall2b_forall2P {A B} (f : A -> A -> bool) (P Q : A -> B -> Prop) l :
  Forall (fun x => forall y, f x y = true -> forall p, (P x p <-> Q y p)) l ->
  forall l', forall2b f l l' = true -> forall ps, (forall2P P l ps <-> forall2P Q l' ps).
Proof.
  induction 1 as [|x r Hx Hr IH]; intros [|y r']; simpl; intros H ps; try discriminate.
  - tauto.
  - apply andb_true_iff in H as [H1 H2]. destruct ps as [|p q]; [tauto|].
    rewrite (Hx y H1 p). rewrite (IH r' H2 q). tauto.
Qed.

Section Get.
Variable T : ctable.

Definition sem_eq (c1 c2 : constr) : Prop := forall s a, sat T s c1 a <-> sat T s c2 a.

(* dataclass equality of constraints implies equal denotations *)
Lemma ceqb_sem : forall c1 c2, ceqb c1 c2 = true -> sem_eq c1 c2.
Proof.
  induction c1 as [| k | e0 | vs | cs H | cs H | k cs H | n c IHc | m0 c IHc | i c IHc] using constr_ind2;
    intros c2 He; destruct c2; simpl in He; try discriminate; intros s x0; simpl.
  - tauto.
  - apply Nat.eqb_eq in He. subst. tauto.
  - apply attr_eqb_eq in He. subst. tauto.
  - apply andb_true_iff in He as [H1 H2]. rewrite forallb_forall in H1, H2.
    split; intros Hi; apply mem_attr_In; auto.
  - apply (forall2b_existsP (fun x y => ceqb x y)); [|exact He].
    eapply Forall_impl; [|exact H]. intros x Hx y Hy. apply Hx. assumption.
  - apply (forall2b_forallP (fun x y => ceqb x y)); [|exact He].
    eapply Forall_impl; [|exact H]. intros x Hx y Hy. apply Hx. assumption.
  - apply andb_true_iff in He as [H1 H2]. apply Nat.eqb_eq in H1. subst.
    destruct x0 as [|k' ps]; [tauto|].
    assert (Hp : forall2P (fun c p => sat T s c p) cs ps <-> forall2P (fun c p => sat T s c p) cs0 ps).
    { apply (forall2b_forall2P (fun x y => ceqb x y)); [|exact H2].
      eapply Forall_impl; [|exact H]. intros x Hx y Hy p. apply Hx. assumption. }
    tauto.
  - apply andb_true_iff in He as [H1 H2]. apply Nat.eqb_eq in H1. subst.
    pose proof (IHc _ H2 s x0). tauto.
  - apply andb_true_iff in He as [H1 H2]. apply (IHc _ H2 s x0).
  - apply andb_true_iff in He as [H1 H2]. apply (IHc _ H2 s x0).
Qed.

Lemma dedup_In a vs : In a (dedup_attr vs) <-> In a vs.
Proof.
  induction vs as [|v r IH]; simpl; [tauto|].
  destruct (mem_attr v r) eqn:E.
  - apply mem_attr_In in E. rewrite IH. split; [auto | intros [<-|Hi]; auto].
  - simpl. rewrite IH. tauto.
Qed.

Lemma attrset_get_sem vs s a : sat T s (attrset_get vs) a <-> In a vs.
Proof.
  unfold attrset_get. destruct vs as [|v0 r]; [simpl; tauto|].
  destruct (length (dedup_attr (v0 :: r)) =? 1) eqn:E; [|simpl; tauto].
  apply Nat.eqb_eq in E.
  destruct (dedup_attr (v0 :: r)) as [|w [|w' l]] eqn:Ed; simpl in E; try discriminate.
  assert (Hd : forall b, In b [w] <-> In b (v0 :: r)) by (intros b; rewrite <- Ed; apply dedup_In).
  assert (Hv0 : v0 = w) by (destruct (proj2 (Hd v0) (or_introl eq_refl)) as [<-|[]]; reflexivity).
  subst w. simpl. split.
  - intros ->. left. reflexivity.
  - intros Hi. destruct (proj2 (Hd a) Hi) as [<-|[]]. reflexivity.
Qed.

Lemma mk_anyof_inv cs r : mk_anyof T cs = Ok r -> r = CAnyOf cs /\ anyof_init T cs = Ok tt.
Proof.
  unfold mk_anyof. destruct (anyof_init T cs) as [[]|] eqn:E; simpl; intros H; inversion H. auto.
Qed.

(* ------------------------------------------------------------------ relax_constraint, merge, loop *)
Section RelaxSem.
Variable orf : constr -> constr -> res constr.
Hypothesis Horf : forall x y v, orf x y = Ok v ->
  forall s a, sat T s v a <-> sat T s x a \/ sat T s y a.

Notation F s l ps := (forall2P (fun c p => sat T s c p) l ps).

(* the one-differing-parameter merge is a product-of-unions argument *)
Lemma relax_params_sem : forall xs ys seen acc r,
  relax_params orf xs ys seen acc = Ok (Some r) ->
  exists zs, r = rev acc ++ zs /\
    forall s ps,
      (seen = true -> (F s zs ps <-> F s xs ps) /\ (F s zs ps <-> F s ys ps)) /\
      (seen = false -> (F s zs ps <-> F s xs ps \/ F s ys ps)).
Proof.
  induction xs as [|x xr IH]; intros [|y yr] seen acc r H; simpl in H; try discriminate.
  - inversion H; subst. exists []. rewrite app_nil_r. split; [reflexivity|].
    intros s [|p q]; simpl; split; intros; tauto.
  - destruct (ceqb x y) eqn:E.
    + apply IH in H as [zs [Hr Hz]]. exists (x :: zs). split.
      { rewrite Hr. simpl. rewrite <- app_assoc. reflexivity. }
      intros s [|p q]; simpl; [split; intros; tauto|].
      pose proof (ceqb_sem x y E s p) as Hxy. destruct (Hz s q) as [Ht Hf].
      split; intros Hs; [destruct (Ht Hs) as [H1 H2]; tauto | specialize (Hf Hs); tauto].
    + destruct seen; [discriminate|].
      destruct (orf x y) as [v|] eqn:Eo; simpl in H; [|discriminate].
      apply IH in H as [zs [Hr Hz]]. exists (v :: zs). split.
      { rewrite Hr. simpl. rewrite <- app_assoc. reflexivity. }
      intros s [|p q]; simpl; [split; intros; [discriminate | tauto]|].
      pose proof (Horf x y v Eo s p) as Hv. destruct (Hz s q) as [Ht _].
      destruct (Ht eq_refl) as [H1 H2]. split; intros Hs; [discriminate | tauto].
Qed.

Lemma relax_param_sem k xs c v : relax_param orf k xs c = Ok (Some v) ->
  forall s a, sat T s v a <-> sat T s (CParam k xs) a \/ sat T s c a.
Proof.
  intros H. destruct c; simpl in H; try discriminate.
  - destruct (k =? k0) eqn:E; inversion H; subst. apply Nat.eqb_eq in E. subst.
    intros s a. simpl. tauto.
  - destruct (negb (k =? k0)) eqn:E; [discriminate|].
    apply negb_false_iff in E. apply Nat.eqb_eq in E. subst k0.
    destruct (relax_params orf xs cs false []) as [[ps|]|] eqn:Er; simpl in H; try discriminate.
    inversion H; subst. apply relax_params_sem in Er as [zs [Hr Hz]]. simpl in Hr. subst ps.
    intros s a. simpl. destruct a as [|k0 ps0]; [tauto|].
    destruct (Hz s ps0) as [_ Hf]. specialize (Hf eq_refl). tauto.
Qed.

Lemma relax_default_sem c2 c v : relax_default c2 c = Ok (Some v) ->
  forall s a, sat T s v a <-> sat T s c2 a \/ sat T s c a.
Proof.
  unfold relax_default. destruct (ceqb c2 c) eqn:E; intros H; inversion H; subst.
  intros s a. pose proof (ceqb_sem _ _ E s a). tauto.
Qed.

Lemma relax_sem c2 c v : relax orf c2 c = Ok (Some v) ->
  forall s a, sat T s v a <-> sat T s c2 a \/ sat T s c a.
Proof.
  intros H s a. unfold relax in H. destruct c2; cbv beta iota in H;
    try (apply (relax_default_sem _ _ _ H s a)).
  - (* CBase *)
    destruct c; cbv beta iota in H; try discriminate;
      try (pose proof (relax_default_sem _ _ _ H s a); tauto).
    pose proof (relax_param_sem _ _ _ _ H s a). tauto.
  - (* CEq *)
    destruct c; cbv beta iota in H; try discriminate;
      match type of H with Ok (Some ?X) = _ => assert (Hv : v = X) by congruence; rewrite Hv end;
      rewrite attrset_get_sem; simpl; intuition congruence.
  - (* CSet *)
    destruct c; cbv beta iota in H; try discriminate;
      match type of H with Ok (Some ?X) = _ => assert (Hv : v = X) by congruence; rewrite Hv end;
      rewrite attrset_get_sem; rewrite in_app_iff; simpl; intuition congruence.
  - (* CParam *)
    apply (relax_param_sem _ _ _ _ H s a).
Qed.

Lemma merge_into_sem : forall done c done', merge_into orf done c = Ok (Some done') ->
  forall s a, existsP (fun c => sat T s c a) done' <->
              existsP (fun c => sat T s c a) done \/ sat T s c a.
Proof.
  induction done as [|c2 r IH]; simpl; intros c done' H s a; [discriminate|].
  destruct (relax orf c2 c) as [[v|]|] eqn:Er; simpl in H; try discriminate.
  - inversion H; subst. simpl. pose proof (relax_sem _ _ _ Er s a). tauto.
  - destruct (merge_into orf r c) as [[r'|]|] eqn:Em; simpl in H; try discriminate.
    inversion H; subst. simpl. pose proof (IH _ _ Em s a). tauto.
Qed.

Lemma get_loop_sem : forall lf done todo r, get_loop T orf lf done todo = Ok r ->
  forall s a, sat T s r a <->
              existsP (fun c => sat T s c a) done \/ existsP (fun c => sat T s c a) todo.
Proof.
  induction lf as [|lf IH]; simpl; intros done todo r H s a; [discriminate|].
  destruct todo as [|c rest].
  - destruct done as [|c0 [|c1 dr]].
    + apply mk_anyof_inv in H as [-> _]. simpl. tauto.
    + inversion H; subst. simpl. tauto.
    + apply mk_anyof_inv in H as [-> _]. simpl. tauto.
  - destruct (is_any c) eqn:Ea.
    + inversion H; subst. destruct c; try discriminate. simpl. tauto.
    + destruct c; try discriminate Ea;
        try (destruct (merge_into orf done _) as [[d'|]|] eqn:Em; simpl in H; [ | |discriminate];
             [ pose proof (IH _ _ _ H s a) as H1; pose proof (merge_into_sem _ _ _ Em s a) as H2;
               simpl in *; tauto
             | pose proof (IH _ _ _ H s a) as H1; rewrite existsP_app in H1; simpl in *; tauto ]).
      pose proof (IH _ _ _ H s a) as H1. rewrite existsP_app in H1. simpl. tauto.
Qed.
End RelaxSem.

Lemma or_with_sem getf :
  (forall cs r, getf cs = Ok r -> forall s a, sat T s r a <-> existsP (fun c => sat T s c a) cs) ->
  forall x y v, or_with getf x y = Ok v -> forall s a, sat T s v a <-> sat T s x a \/ sat T s y a.
Proof.
  intros Hg x y v H s a. unfold or_with in H.
  destruct (is_any y || ceqb x y) eqn:E.
  - inversion H; subst. apply orb_true_iff in E as [E|E].
    + destruct v; try discriminate. simpl. tauto.
    + pose proof (ceqb_sem _ _ E s a). tauto.
  - pose proof (Hg _ _ H s a) as H1. simpl in H1. tauto.
Qed.

Lemma anyof_get_d_sem : forall d cs r, anyof_get_d T d cs = Ok r ->
  forall s a, sat T s r a <-> existsP (fun c => sat T s c a) cs.
Proof.
  induction d as [|d IH]; cbn [anyof_get_d]; intros cs r H s a; [discriminate|].
  pose proof (get_loop_sem _ (or_with_sem _ IH) _ _ _ _ H s a) as H1. simpl in H1. tauto.
Qed.

(* AnyOf.get: whenever it does not raise, the accepted set is the union of the alternatives' *)
Theorem anyof_get_sem cs r : anyof_get T cs = Ok r ->
  forall s a, sat T s r a <-> existsP (fun c => sat T s c a) cs.
Proof. apply anyof_get_d_sem. Qed.

Theorem c_or_sem x y v : c_or T x y = Ok v ->
  forall s a, sat T s v a <-> sat T s x a \/ sat T s y a.
Proof. apply or_with_sem. intros cs r. apply anyof_get_sem. Qed.

(* ================================================================== the fuel is never exhausted *)
Definition NF {A} (r : res A) : Prop := r <> Err EFuel.
Lemma NF_err {A B} (e : err) : @NF A (Err e) -> @NF B (Err e).
Proof. unfold NF. intros H H'. apply H. inversion H'. reflexivity. Qed.

Lemma max_with_In {A} (f : A -> nat) l c : In c l -> f c <= max_with f l.
Proof. induction l as [|x r IH]; simpl; [tauto|]. intros [<-|Hi]; [lia | specialize (IH Hi); lia]. Qed.
Lemma max_with_bound {A} (f : A -> nat) l n : (forall c, In c l -> f c <= n) -> max_with f l <= n.
Proof.
  induction l as [|x r IH]; simpl; intros H; [lia|].
  assert (f x <= n) by (apply H; auto). assert (max_with f r <= n) by (apply IH; intros; apply H; auto). lia.
Qed.
Lemma sum_with_app {A} (f : A -> nat) l l' : sum_with f (l ++ l') = sum_with f l + sum_with f l'.
Proof. induction l as [|x r IH]; simpl; [reflexivity | rewrite IH; lia]. Qed.
Lemma csize_pos c : 1 <= csize c.
Proof. destruct c; simpl; lia. Qed.
Lemma csize_anyof cs : csize (CAnyOf cs) = S (lsize cs).
Proof. reflexivity. Qed.
Lemma pdepth_attrset vs : pdepth (attrset_get vs) = 0.
Proof. unfold attrset_get. destruct vs; [reflexivity|]. destruct (_ =? 1); reflexivity. Qed.

Lemma scan_err : forall cs keys ab e, anyof_scan T cs keys ab = Err e -> e = EPyRDL.
Proof.
  induction cs as [|c r IH]; simpl; intros keys ab e H; [discriminate|].
  destruct (bases T c) as [b|].
  - destruct (existsb (fun k => memn k keys) b); [congruence | eauto].
  - destruct ab; [congruence|]. destruct (is_abstract_base T c); [eauto | congruence].
Qed.
Lemma mk_anyof_nf cs : NF (mk_anyof T cs).
Proof.
  unfold NF, mk_anyof, anyof_init. destruct (anyof_scan T cs [] None) as [[keys ab]|e] eqn:E; simpl.
  - destruct ab as [[]|]; simpl; try discriminate. destruct (existsb _ keys); simpl; discriminate.
  - apply scan_err in E. subst. discriminate.
Qed.

Definition orf_ok (n : nat) (orf : constr -> constr -> res constr) : Prop :=
  forall x y, pdepth x < n -> pdepth y < n ->
  NF (orf x y) /\ forall v, orf x y = Ok v -> pdepth v <= Nat.max (pdepth x) (pdepth y).

Section FuelLoop.
Variable orf : constr -> constr -> res constr.
Variable n : nat.
Hypothesis Hok : orf_ok n orf.

Lemma relax_params_ok m : m < n -> forall xs ys seen acc,
  (forall x, In x xs -> pdepth x <= m) -> (forall y, In y ys -> pdepth y <= m) ->
  (forall z, In z acc -> pdepth z <= m) ->
  NF (relax_params orf xs ys seen acc) /\
  forall r, relax_params orf xs ys seen acc = Ok (Some r) -> forall z, In z r -> pdepth z <= m.
Proof.
  intros Hm. induction xs as [|x xr IH]; intros [|y yr] seen acc Hx Hy Ha; simpl;
    try (split; [discriminate | intros r H; discriminate]).
  - split; [discriminate|]. intros r H z Hz. inversion H; subst. apply in_rev in Hz. auto.
  - destruct (ceqb x y).
    + apply IH; [intros; apply Hx; simpl; auto | intros; apply Hy; simpl; auto |].
      intros z [<-|Hz]; [apply Hx; simpl; auto | auto].
    + destruct seen; [split; [discriminate | intros r H; discriminate]|].
      assert (Hpx : pdepth x <= m) by (apply Hx; simpl; auto).
      assert (Hpy : pdepth y <= m) by (apply Hy; simpl; auto).
      destruct (Hok x y) as [Hnf Hb]; [lia | lia |].
      destruct (orf x y) as [v|e] eqn:Eo; simpl.
      * specialize (Hb v eq_refl).
        apply IH; [intros; apply Hx; simpl; auto | intros; apply Hy; simpl; auto |].
        intros z [<-|Hz]; [lia | auto].
      * split; [apply (NF_err _ Hnf) | intros r H; discriminate].
Qed.

Lemma relax_param_ok k xs c : pdepth (CParam k xs) <= n -> pdepth c <= n ->
  NF (relax_param orf k xs c) /\
  forall v, relax_param orf k xs c = Ok (Some v) -> pdepth v <= Nat.max (pdepth (CParam k xs)) (pdepth c).
Proof.
  intros H1 H2. destruct c; simpl; try (split; [discriminate | intros v H; discriminate]).
  - split; [discriminate|]. intros v H. destruct (k =? k0); inversion H; subst. simpl. lia.
  - destruct (negb (k =? k0)); simpl; [split; [discriminate | intros v H; discriminate]|].
    simpl in H1, H2.
    set (m := Nat.max (max_with (fun c => pdepth c) xs) (max_with (fun c => pdepth c) cs)).
    destruct (relax_params_ok m ltac:(unfold m; lia) xs cs false []) as [Hnf Hb].
    { intros x Hx. pose proof (max_with_In (fun c => pdepth c) xs x Hx). unfold m. lia. }
    { intros y Hy. pose proof (max_with_In (fun c => pdepth c) cs y Hy). unfold m. lia. }
    { intros z []. }
    destruct (relax_params orf xs cs false []) as [[ps|]|e] eqn:Er; simpl.
    + split; [discriminate|]. intros v H. inversion H; subst. simpl.
      pose proof (max_with_bound (fun c => pdepth c) ps m (Hb ps eq_refl)). unfold m in *. lia.
    + split; [discriminate | intros v H; discriminate].
    + split; [apply (NF_err _ Hnf) | intros v H; discriminate].
Qed.

Lemma relax_default_ok c2 c :
  NF (relax_default c2 c) /\
  forall v, relax_default c2 c = Ok (Some v) -> pdepth v <= Nat.max (pdepth c2) (pdepth c).
Proof.
  unfold relax_default. split; [discriminate|]. intros v H. destruct (ceqb c2 c); inversion H; subst. lia.
Qed.

Lemma relax_ok c2 c : pdepth c2 <= n -> pdepth c <= n ->
  NF (relax orf c2 c) /\
  forall v, relax orf c2 c = Ok (Some v) -> pdepth v <= Nat.max (pdepth c2) (pdepth c).
Proof.
  intros H1 H2. unfold relax. destruct c2; try apply relax_default_ok.
  - destruct c; try apply relax_default_ok;
      try (split; [discriminate | intros v H; discriminate]);
      try (match goal with
           | |- NF (relax_default ?a ?b) /\ _ =>
               destruct (relax_default_ok a b) as [Ha Hb]; split; [exact Ha|];
               intros v H; specialize (Hb v H); lia
           end).
    destruct (relax_param_ok k0 cs (CBase k) H2 H1) as [Hnf Hb']. split; [exact Hnf|].
    intros v H. specialize (Hb' v H). lia.
  - destruct c; try (split; [discriminate | intros v H; discriminate]);
      (split; [discriminate|]; intros v H;
       match type of H with Ok (Some ?X) = _ => assert (Hv : v = X) by congruence; rewrite Hv end;
       rewrite pdepth_attrset; lia).
  - destruct c; try (split; [discriminate | intros v H; discriminate]);
      (split; [discriminate|]; intros v H;
       match type of H with Ok (Some ?X) = _ => assert (Hv : v = X) by congruence; rewrite Hv end;
       rewrite pdepth_attrset; lia).
  - apply relax_param_ok; assumption.
Qed.

Lemma merge_ok : forall done c,
  (forall c2, In c2 done -> pdepth c2 <= n) -> pdepth c <= n ->
  NF (merge_into orf done c) /\
  forall done', merge_into orf done c = Ok (Some done') -> forall z, In z done' -> pdepth z <= n.
Proof.
  induction done as [|c2 r IH]; simpl; intros c Hd Hc.
  - split; [discriminate | intros d H; discriminate].
  - destruct (relax_ok c2 c) as [Hnf Hb]; [apply Hd; auto | assumption |].
    destruct (relax orf c2 c) as [[v|]|e] eqn:Er; simpl.
    + split; [discriminate|]. intros d H z Hz. inversion H; subst.
      destruct Hz as [<-|Hz]; [|apply Hd; auto].
      specialize (Hb v eq_refl). assert (pdepth c2 <= n) by (apply Hd; auto). lia.
    + destruct (IH c) as [Hnf' Hb']; [intros; apply Hd; auto | assumption |].
      destruct (merge_into orf r c) as [[r'|]|e] eqn:Em; simpl.
      * split; [discriminate|]. intros d H z Hz. inversion H; subst.
        destruct Hz as [<-|Hz]; [apply Hd; auto | eapply Hb'; eauto].
      * split; [discriminate | intros d H; discriminate].
      * split; [apply (NF_err _ Hnf') | intros d H; discriminate].
    + split; [apply (NF_err _ Hnf) | intros d H; discriminate].
Qed.

Lemma loop_ok : forall lf done todo,
  (forall c, In c done -> pdepth c <= n) -> (forall c, In c todo -> pdepth c <= n) ->
  lsize todo < lf ->
  NF (get_loop T orf lf done todo) /\ forall r, get_loop T orf lf done todo = Ok r -> pdepth r <= n.
Proof.
  induction lf as [|lf IH]; intros done todo Hd Ht Hl; [lia|]. simpl.
  destruct todo as [|c rest].
  - assert (Hmk : NF (mk_anyof T done) /\ forall r, mk_anyof T done = Ok r -> pdepth r <= n).
    { split; [apply mk_anyof_nf|]. intros r H. apply mk_anyof_inv in H as [-> _]. simpl.
      apply max_with_bound. assumption. }
    destruct done as [|c0 [|c1 dr]]; try exact Hmk.
    split; [discriminate|]. intros r H. inversion H; subst. apply Hd. simpl. auto.
  - assert (Hc : pdepth c <= n) by (apply Ht; simpl; auto).
    assert (Hrest : forall c', In c' rest -> pdepth c' <= n) by (intros; apply Ht; simpl; auto).
    unfold lsize in Hl. simpl in Hl. pose proof (csize_pos c) as Hpos.
    destruct (is_any c) eqn:Ea.
    + split; [discriminate|]. intros r H. inversion H; subst. simpl. lia.
    + assert (Hother : NF (bind (merge_into orf done c) (fun o =>
                 match o with
                 | Some done' => get_loop T orf lf done' rest
                 | None => get_loop T orf lf (done ++ [c]) rest
                 end)) /\
               forall r, bind (merge_into orf done c) (fun o =>
                 match o with
                 | Some done' => get_loop T orf lf done' rest
                 | None => get_loop T orf lf (done ++ [c]) rest
                 end) = Ok r -> pdepth r <= n).
      { destruct (merge_ok done c Hd Hc) as [Hnf Hb].
        destruct (merge_into orf done c) as [[d'|]|e] eqn:Em; simpl.
        - apply IH; [eapply Hb; eauto | assumption | unfold lsize; lia].
        - apply IH; [| assumption | unfold lsize; lia].
          intros c' Hi. apply in_app_or in Hi as [Hi|[<-|[]]]; auto.
        - split; [apply (NF_err _ Hnf) | intros r H; discriminate]. }
      destruct c; try exact Hother; try discriminate Ea.
      apply IH.
      * assumption.
      * intros c' Hi. apply in_app_or in Hi as [Hi|Hi]; [|auto].
        simpl in Hc. pose proof (max_with_In (fun c => pdepth c) cs c' Hi). lia.
      * unfold lsize. rewrite sum_with_app. rewrite csize_anyof in Hl. unfold lsize in Hl. lia.
Qed.
End FuelLoop.

Lemma get_d_ok : forall d cs, lpdepth cs < d ->
  NF (anyof_get_d T d cs) /\ forall r, anyof_get_d T d cs = Ok r -> pdepth r <= lpdepth cs.
Proof.
  induction d as [|d IH]; intros cs Hd; [lia|]. cbn [anyof_get_d].
  apply (loop_ok (or_with (anyof_get_d T d)) (lpdepth cs)).
  - intros x y Hx Hy. unfold or_with. destruct (is_any y || ceqb x y).
    + split; [discriminate|]. intros v H. inversion H; subst. lia.
    + destruct (IH [x; y]) as [Hnf Hb]; [unfold lpdepth; simpl; lia|].
      split; [exact Hnf|]. intros v H. specialize (Hb v H). unfold lpdepth in Hb. simpl in Hb. lia.
  - intros c [].
  - intros c Hi. unfold lpdepth. apply (max_with_In (fun c => pdepth c)). assumption.
  - lia.
Qed.

(* the fuel the model gives to AnyOf.get always suffices *)
Theorem anyof_get_fuel cs : anyof_get T cs <> Err EFuel.
Proof. unfold anyof_get. apply (get_d_ok (S (lpdepth cs)) cs). lia. Qed.

(* ================================================================== preservation of tree invariants *)
(* Any property of constraint trees that is compositional in the sense of the eight hypotheses is
   preserved by AnyOf.get (used for `constructible` and for `constructible and variable-free`). *)
Section Preserve.
Variable Q : constr -> Prop.
Hypothesis Q_any : Q CAny.
Hypothesis Q_base : forall k, Q (CBase k).
Hypothesis Q_eq : forall a, Q (CEq a).
Hypothesis Q_set : forall vs, Q (CSet vs).
Hypothesis Q_param_mk : forall k ps, (forall p, In p ps -> Q p) -> Q (CParam k ps).
Hypothesis Q_param_inv : forall k ps, Q (CParam k ps) -> forall p, In p ps -> Q p.
Hypothesis Q_anyof_inv : forall cs, Q (CAnyOf cs) -> forall c, In c cs -> Q c.
Hypothesis Q_anyof_mk : forall cs, (forall c, In c cs -> Q c) -> anyof_init T cs = Ok tt -> Q (CAnyOf cs).

Lemma Q_attrset vs : Q (attrset_get vs).
Proof. unfold attrset_get. destruct vs; [apply Q_set|]. destruct (_ =? 1); auto. Qed.

Section PLoop.
Variable orf : constr -> constr -> res constr.
Hypothesis HorfQ : forall x y v, Q x -> Q y -> orf x y = Ok v -> Q v.

Lemma relax_params_Q : forall xs ys seen acc r,
  (forall x, In x xs -> Q x) -> (forall y, In y ys -> Q y) -> (forall z, In z acc -> Q z) ->
  relax_params orf xs ys seen acc = Ok (Some r) -> forall z, In z r -> Q z.
Proof.
  induction xs as [|x xr IH]; intros [|y yr] seen acc r Hx Hy Ha H; simpl in H; try discriminate.
  - inversion H; subst. intros z Hz. apply in_rev in Hz. auto.
  - destruct (ceqb x y).
    + eapply IH; [| | |exact H]; [intros; apply Hx; simpl; auto | intros; apply Hy; simpl; auto |].
      intros z [<-|Hz]; [apply Hx; simpl; auto | auto].
    + destruct seen; [discriminate|]. destruct (orf x y) as [v|] eqn:Eo; simpl in H; [|discriminate].
      eapply IH; [| | |exact H]; [intros; apply Hx; simpl; auto | intros; apply Hy; simpl; auto |].
      intros z [<-|Hz]; [|auto]. eapply HorfQ; [| |exact Eo]; [apply Hx | apply Hy]; simpl; auto.
Qed.

Lemma relax_param_Q k xs c v : Q (CParam k xs) -> Q c -> relax_param orf k xs c = Ok (Some v) -> Q v.
Proof.
  intros H1 H2 H. destruct c; simpl in H; try discriminate.
  - destruct (k =? k0); inversion H; subst. assumption.
  - destruct (negb (k =? k0)); [discriminate|].
    destruct (relax_params orf xs cs false []) as [[ps|]|] eqn:Er; simpl in H; try discriminate.
    inversion H; subst. apply Q_param_mk.
    eapply relax_params_Q; [| | |exact Er]; [eapply Q_param_inv; eauto | eapply Q_param_inv; eauto |].
    intros z [].
Qed.

Lemma relax_default_Q c2 c v : Q c2 -> relax_default c2 c = Ok (Some v) -> Q v.
Proof. unfold relax_default. intros Hq H. destruct (ceqb c2 c); inversion H; subst. assumption. Qed.

Lemma relax_Q c2 c v : Q c2 -> Q c -> relax orf c2 c = Ok (Some v) -> Q v.
Proof.
  intros Hq2 Hq H. unfold relax in H. destruct c2; cbv beta iota in H;
    try (eapply relax_default_Q; [|exact H]; assumption).
  - destruct c; cbv beta iota in H; try discriminate;
      try (eapply relax_default_Q; [|exact H]; assumption).
    eapply relax_param_Q; [| |exact H]; assumption.
  - destruct c; cbv beta iota in H; try discriminate;
      match type of H with Ok (Some ?X) = _ => assert (Hv : v = X) by congruence; rewrite Hv end;
      apply Q_attrset.
  - destruct c; cbv beta iota in H; try discriminate;
      match type of H with Ok (Some ?X) = _ => assert (Hv : v = X) by congruence; rewrite Hv end;
      apply Q_attrset.
  - eapply relax_param_Q; eauto.
Qed.

Lemma merge_Q : forall done c done', (forall z, In z done -> Q z) -> Q c ->
  merge_into orf done c = Ok (Some done') -> forall z, In z done' -> Q z.
Proof.
  induction done as [|c2 r IH]; simpl; intros c done' Hd Hc H; [discriminate|].
  destruct (relax orf c2 c) as [[v|]|] eqn:Er; simpl in H; try discriminate.
  - inversion H; subst. intros z [<-|Hz]; [|apply Hd; auto].
    eapply relax_Q; [| |exact Er]; [apply Hd; auto | assumption].
  - destruct (merge_into orf r c) as [[r'|]|] eqn:Em; simpl in H; try discriminate.
    inversion H; subst. intros z [<-|Hz]; [apply Hd; auto|].
    eapply IH; [| |exact Em|exact Hz]; [intros; apply Hd; auto | assumption].
Qed.

Lemma loop_Q : forall lf done todo r, (forall z, In z done -> Q z) -> (forall z, In z todo -> Q z) ->
  get_loop T orf lf done todo = Ok r -> Q r.
Proof.
  induction lf as [|lf IH]; simpl; intros done todo r Hd Ht H; [discriminate|].
  destruct todo as [|c rest].
  - assert (Hmk : mk_anyof T done = Ok r -> Q r).
    { intros Hm. apply mk_anyof_inv in Hm as [-> Hi]. apply Q_anyof_mk; assumption. }
    destruct done as [|c0 [|c1 dr]]; auto. inversion H; subst. apply Hd. simpl. auto.
  - assert (Hc : Q c) by (apply Ht; simpl; auto).
    assert (Hrest : forall z, In z rest -> Q z) by (intros; apply Ht; simpl; auto).
    destruct (is_any c) eqn:Ea; [inversion H; subst; apply Q_any|].
    destruct c; try discriminate Ea;
      try (destruct (merge_into orf done _) as [[d'|]|] eqn:Em; simpl in H; [ | |discriminate];
           [ eapply IH; [| |exact H]; [|assumption];
             intros z Hz; eapply (merge_Q done _ d'); [exact Hd | exact Hc | exact Em | exact Hz]
           | eapply IH; [| |exact H]; [|assumption];
             intros z Hz; apply in_app_or in Hz as [Hz|[<-|[]]]; auto ]).
    eapply IH; [| |exact H]; [assumption|].
    intros z Hz. apply in_app_or in Hz as [Hz|Hz]; [eapply Q_anyof_inv; eauto | auto].
Qed.
End PLoop.

Lemma get_d_Q : forall d cs r, (forall c, In c cs -> Q c) -> anyof_get_d T d cs = Ok r -> Q r.
Proof.
  induction d as [|d IH]; cbn [anyof_get_d]; intros cs r Hcs H; [discriminate|].
  eapply (loop_Q (or_with (anyof_get_d T d))); [| | |exact H]; [|intros z []|assumption].
  intros x y v Hx Hy Ho. unfold or_with in Ho. destruct (is_any y || ceqb x y).
  - inversion Ho; subst. assumption.
  - eapply IH; [|exact Ho]. intros c [<-|[<-|[]]]; assumption.
Qed.

Lemma anyof_get_Q cs r : (forall c, In c cs -> Q c) -> anyof_get T cs = Ok r -> Q r.
Proof. apply get_d_Q. Qed.

Lemma param_get_Q k cs r : (forall c, In c cs -> Q c) -> param_get T k cs = Ok r -> Q r.
Proof.
  intros Hcs H. unfold param_get in H. destruct (final T k && forallb is_eq cs).
  - destruct (new_attr T k (map eq_attr_of cs)); simpl in H; inversion H; subst. apply Q_eq.
  - destruct (forallb is_any cs); inversion H; subst; [apply Q_base | apply Q_param_mk; assumption].
Qed.
End Preserve.

(* instance 1: constructibility *)
Lemma constructible_get cs r :
  (forall c, In c cs -> constructible T c = true) -> anyof_get T cs = Ok r -> constructible T r = true.
Proof.
  apply (anyof_get_Q (fun c => constructible T c = true)); try reflexivity.
  - intros k ps H. simpl. apply forallb_forall. assumption.
  - intros k ps H. simpl in H. rewrite forallb_forall in H. assumption.
  - intros cs0 H. simpl in H. apply andb_true_iff in H as [H _]. rewrite forallb_forall in H. assumption.
  - intros cs0 H Hi. simpl. rewrite Hi. rewrite andb_true_r. apply forallb_forall. assumption.
Qed.

(* instance 2: constructible and without constraint variables *)
Fixpoint novar (c : constr) : bool :=
  match c with
  | CVar _ _ => false
  | CAnyOf cs => forallb (fun c => novar c) cs
  | CAllOf cs => forallb (fun c => novar c) cs
  | CParam _ cs => forallb (fun c => novar c) cs
  | CMsg _ c => novar c
  | CTypeVar _ c => novar c
  | _ => true
  end.
Definition good (c : constr) : Prop := constructible T c = true /\ novar c = true.

Lemma good_list_split cs :
  (forall c, In c cs -> good c) <->
  forallb (fun c => constructible T c) cs = true /\ forallb (fun c => novar c) cs = true.
Proof.
  rewrite !forallb_forall. unfold good. split.
  - intros H. split; intros c Hc; apply H; assumption.
  - intros [H1 H2] c Hc. split; auto.
Qed.

Lemma good_get cs r : (forall c, In c cs -> good c) -> anyof_get T cs = Ok r -> good r.
Proof.
  apply (anyof_get_Q good); try (split; reflexivity).
  - intros k ps H. apply good_list_split in H as [H1 H2]. split; simpl; assumption.
  - intros k ps [H1 H2]. simpl in H1, H2. apply good_list_split. split; assumption.
  - intros cs0 [H1 H2]. simpl in H1, H2. apply andb_true_iff in H1 as [H1 _].
    apply good_list_split. split; assumption.
  - intros cs0 H Hi. apply good_list_split in H as [H1 H2]. split; simpl; [|assumption].
    rewrite H1, Hi. reflexivity.
Qed.

Lemma good_param_get k cs r : (forall c, In c cs -> good c) -> param_get T k cs = Ok r -> good r.
Proof.
  apply (param_get_Q good); try (split; reflexivity).
  intros k0 ps H. apply good_list_split in H as [H1 H2]. split; simpl; assumption.
Qed.

(* ================================================================== ParamAttrConstraint.get *)
Hypothesis Hfinal : forall k k', final T k = true -> sub T k' k = true -> k' = k.
Hypothesis Hrefl : forall k, sub T k k = true.

Lemma new_attr_ok k ps a : new_attr T k ps = Ok a -> a = Par k ps.
Proof.
  unfold new_attr. destruct (negb _); [discriminate|]. destruct (negb _); [discriminate|].
  destruct (negb _); [discriminate|]. congruence.
Qed.

Lemma all_eq_sat s cs : forallb is_eq cs = true ->
  forall ps, forall2P (fun c p => sat T s c p) cs ps <-> ps = map eq_attr_of cs.
Proof.
  induction cs as [|c r IH]; simpl; intros H ps.
  - destruct ps; split; intros; try tauto; discriminate.
  - apply andb_true_iff in H as [H1 H2]. destruct ps as [|p q]; [split; [tauto | discriminate]|].
    rewrite (IH H2 q). destruct c; try discriminate. simpl. split.
    + intros [-> ->]. reflexivity.
    + intros E. inversion E; subst. auto.
Qed.

Lemma all_any_sat s cs : forallb is_any cs = true ->
  forall ps, length ps = length cs -> forall2P (fun c p => sat T s c p) cs ps.
Proof.
  induction cs as [|c r IH]; simpl; intros H ps Hl.
  - destruct ps; [exact I | discriminate].
  - apply andb_true_iff in H as [H1 H2]. destruct ps as [|p q]; [discriminate|].
    split; [destruct c; try discriminate; exact I | apply IH; [assumption | simpl in Hl; lia]].
Qed.

(* ParamAttrConstraint.get: whenever it does not raise, same denotation on every attribute whose
   instances of class k are parametrized with as many parameters as there are constraints
   (true of every valid attribute when k is final and the constraint has the class's arity) *)
Theorem param_get_sem k cs r : param_get T k cs = Ok r ->
  forall s a,
  (inst T a k = true -> exists k' ps, a = Par k' ps /\ length ps = length cs) ->
  (sat T s r a <-> sat T s (CParam k cs) a).
Proof.
  intros H s a Hshape. unfold param_get in H.
  destruct (final T k && forallb is_eq cs) eqn:E1.
  - apply andb_true_iff in E1 as [Hf Heq].
    destruct (new_attr T k (map eq_attr_of cs)) as [a0|] eqn:En; simpl in H; [|discriminate].
    inversion H; subst. apply new_attr_ok in En. subst a0. simpl. split.
    + intros ->. split; [unfold inst; simpl; apply Hrefl|]. apply all_eq_sat; auto.
    + intros [Hi Hp]. assert (Hk : cls a = k) by (apply (Hfinal k (cls a)); assumption).
      destruct a as [|k' ps]; [destruct Hp|]. simpl in Hk. subst k'.
      apply all_eq_sat in Hp; [|assumption]. congruence.
  - destruct (forallb is_any cs) eqn:E2; inversion H; subst; [|tauto].
    simpl. split; [|tauto]. intros Hi. split; [assumption|].
    destruct (Hshape Hi) as [k' [ps [-> Hl]]]. apply all_any_sat; assumption.
Qed.

(* ================================================================== type hints *)
Lemma mapM_Forall2 {A B} (f : A -> res B) l :
  forall rs, mapM f l = Ok rs -> Forall2 (fun x r => f x = Ok r) l rs.
Proof.
  induction l as [|x r IH]; simpl; intros rs H.
  - inversion H. constructor.
  - destruct (f x) as [b|] eqn:E; simpl in H; [|discriminate].
    destruct (mapM f r) as [bs|] eqn:E2; simpl in H; [|discriminate].
    inversion H; subst. constructor; auto.
Qed.
Lemma Forall2_In_l {A B} (R : A -> B -> Prop) l rs x :
  Forall2 R l rs -> In x l -> exists r, In r rs /\ R x r.
Proof.
  induction 1 as [|y r l' rs' Hy Hr IH]; simpl; [tauto|].
  intros [<-|Hi]; [exists r; auto|]. destruct (IH Hi) as [r0 [H1 H2]]. exists r0. auto.
Qed.
Lemma Forall2_In_r {A B} (R : A -> B -> Prop) l rs r :
  Forall2 R l rs -> In r rs -> exists x, In x l /\ R x r.
Proof.
  induction 1 as [|y r' l' rs' Hy Hr IH]; simpl; [tauto|].
  intros [<-|Hi]; [exists y; auto|]. destruct (IH Hi) as [x0 [H1 H2]]. exists x0. auto.
Qed.

Lemma novar_wn : forall c, novar c = true -> forall G, wn G c.
Proof.
  induction c as [| k | e0 | vs | cs H | cs H | k cs H | n c IHc | m0 c IHc | i c IHc] using constr_ind2;
    simpl; intros Hn G; auto; try discriminate;
    (apply forallP_In; rewrite forallb_forall in Hn; rewrite Forall_forall in H;
     intros c Hc; apply H; auto).
Qed.

(* for constructible variable-free constraints: verifies <-> in the denotation *)
Lemma closed_verifies c a : good c -> (verifies T c a = true <-> exists s, sat T s c a).
Proof.
  intros [Hc Hn]. unfold verifies. destruct (verify T c a []) as [b x'] eqn:E. simpl. split.
  - intros ->. exists (env_of x').
    destruct (verify_sound T (fun _ => CAny) c (novar_wn c Hn _) a [] x' (ctx_ok_nil T _) E) as [S _].
    exact S.
  - intros [s Hs]. destruct (verify_complete T Hfinal c Hc a [] s) as [x2 [E2 _]];
      [intros n v Hn'; discriminate | assumption |].
    rewrite E in E2. inversion E2. reflexivity.
Qed.

Section HintInd.
Variable P : hint -> Prop.
Hypothesis PCls : forall k, P (HCls k).
Hypothesis PUnion : forall hs, Forall P hs -> P (HUnion hs).
Hypothesis PGen : forall k args, Forall P args -> P (HGen k args).
Hypothesis PAnnot : forall h cs, P h -> P (HAnnot h cs).
Fixpoint hint_ind2 (h : hint) : P h :=
  let go := fix go (l : list hint) : Forall P l :=
              match l with
              | [] => Forall_nil _
              | x :: r => Forall_cons _ (hint_ind2 x) (go r)
              end in
  match h with
  | HCls k => PCls k
  | HUnion hs => PUnion hs (go hs)
  | HGen k args => PGen k args (go args)
  | HAnnot h cs => PAnnot h cs (hint_ind2 h)
  end.
End HintInd.

(* the constraints a user puts into Annotated[...] are constructible and variable-free *)
Fixpoint hint_ok (h : hint) : Prop :=
  match h with
  | HCls _ => True
  | HUnion hs => forallP (fun h => hint_ok h) hs
  | HGen k args => forallP (fun h => hint_ok h) args /\ forallP good (cdef T k)
                   (* the generic class's parameter definitions use no constraint variables *)
  | HAnnot h cs => hint_ok h /\ forallP good cs
  end.

Hypothesis Hroot : forall k, sub T k 0 = true.          (* class 0 is `Attribute` *)

Lemma mapM_good {A} (f : A -> res constr) l rs :
  mapM f l = Ok rs -> (forall x r, In x l -> f x = Ok r -> good r) -> forall r, In r rs -> good r.
Proof.
  intros H Hg r Hr. apply mapM_Forall2 in H. destruct (Forall2_In_r _ _ _ _ H Hr) as [x [H1 H2]].
  eapply Hg; eauto.
Qed.

Lemma good_allof vs : (forall v, In v vs -> good v) -> good (CAllOf vs).
Proof. intros H. apply good_list_split in H as [H1 H2]. split; simpl; assumption. Qed.

Lemma map_tv_good m : (forall v, In v m -> good v) -> forall c r, good c -> map_tv T m c = Ok r -> good r.
Proof.
  intros Hm.
  induction c as [| k | e0 | vs | cs H | cs H | k cs H | n c IHc | m0 c IHc | i c IHc] using constr_ind2;
    intros r Hg Hr; simpl in Hr; try (inversion Hr; subst; assumption).
  - destruct (mapM (fun c => map_tv T m c) cs) as [vs0|] eqn:E; simpl in Hr; [|discriminate].
    eapply good_get; [|exact Hr]. eapply mapM_good; [exact E|].
    intros x r0 Hx Hx0. rewrite Forall_forall in H. apply (H x Hx r0); [|assumption].
    destruct Hg as [H1 H2]. simpl in H1, H2. apply andb_true_iff in H1 as [H1 _].
    rewrite forallb_forall in H1, H2. split; auto.
  - destruct (mapM (fun c => map_tv T m c) cs) as [vs0|] eqn:E; simpl in Hr; [|discriminate].
    inversion Hr; subst. apply good_allof. eapply mapM_good; [exact E|].
    intros x r0 Hx Hx0. rewrite Forall_forall in H. apply (H x Hx r0); [|assumption].
    destruct Hg as [H1 H2]. simpl in H1, H2. rewrite forallb_forall in H1, H2. split; auto.
  - destruct (mapM (fun c => map_tv T m c) cs) as [vs0|] eqn:E; simpl in Hr; [|discriminate].
    eapply good_param_get; [|exact Hr]. eapply mapM_good; [exact E|].
    intros x r0 Hx Hx0. rewrite Forall_forall in H. apply (H x Hx r0); [|assumption].
    destruct Hg as [H1 H2]. simpl in H1, H2. rewrite forallb_forall in H1, H2. split; auto.
  - destruct Hg as [_ H2]. simpl in H2. discriminate.
  - destruct (map_tv T m c) as [v|] eqn:E; simpl in Hr; [|discriminate]. inversion Hr; subst.
    destruct Hg as [H1 H2]. simpl in H1, H2. destruct (IHc v (conj H1 H2) eq_refl) as [G1 G2].
    split; simpl; assumption.
  - destruct (nth_error m i) as [v|] eqn:E; [|discriminate]. inversion Hr; subst.
    apply Hm. eapply nth_error_In; eauto.
Qed.

Lemma hint_good : forall h, hint_ok h -> forall c, hint_constr T h = Ok c -> good c.
Proof.
  induction h as [k | hs IH | k args IH | h cs IH] using hint_ind2; intros Hok c Hc; simpl in Hok, Hc.
  - inversion Hc; subst. destruct (k =? 0); split; reflexivity.
  - destruct (mapM (fun h => hint_constr T h) hs) as [cs|] eqn:E; simpl in Hc; [|discriminate].
    eapply good_get; [|exact Hc]. eapply mapM_good; [exact E|].
    intros x r Hx Hr. rewrite Forall_forall in IH. rewrite forallP_In in Hok. eapply IH; eauto.
  - destruct Hok as [Hok Hdef]. destruct (negb (length args =? ntv T k)); [discriminate|].
    destruct (mapM (fun h => hint_constr T h) args) as [m|] eqn:E; simpl in Hc; [|discriminate].
    change (map_tv T m (CParam k (cdef T k)) = Ok c) in Hc.
    eapply (map_tv_good m); [| |exact Hc].
    + eapply mapM_good; [exact E|].
      intros x r Hx Hr. rewrite Forall_forall in IH. rewrite forallP_In in Hok. eapply IH; eauto.
    + rewrite forallP_In in Hdef.
      apply good_list_split in Hdef as [H1 H2]. split; simpl; assumption.
  - destruct Hok as [Hok1 Hok2]. destruct (hint_constr T h) as [c0|] eqn:E; simpl in Hc; [|discriminate].
    specialize (IH Hok1 c0 eq_refl). destruct cs as [|c1 cr]; inversion Hc; subst; [assumption|].
    apply good_allof. rewrite forallP_In in Hok2. intros v [<-|Hv]; auto.
Qed.

Lemma any_res_spec {A} (f : A -> res bool) l b : any_res f l = Ok b ->
  (b = true -> exists h, In h l /\ f h = Ok true) /\ (b = false -> forall h, In h l -> f h = Ok false).
Proof.
  revert b. induction l as [|h r IH]; simpl; intros b H.
  - inversion H; subst. split; [discriminate | intros _ h []].
  - destruct (f h) as [b0|] eqn:E; simpl in H; [|discriminate]. destruct b0.
    + inversion H; subst. split; [intros _; exists h; auto | discriminate].
    + destruct (IH b H) as [H1 H2]. split.
      * intros Hb. destruct (H1 Hb) as [h0 [Hi Hf]]. exists h0. auto.
      * intros Hb h0 [<-|Hi]; auto.
Qed.

(* a constraint derived from a type hint agrees with the runtime type-hint check *)
Theorem hint_agrees a : forall h, hint_ok h -> forall c b,
  hint_constr T h = Ok c -> isa T a h = Ok b -> verifies T c a = b.
Proof.
  induction h as [k | hs IH | k args IH | h cs IH] using hint_ind2; intros Hok c b Hc Hi.
  - simpl in Hc, Hi. inversion Hc; inversion Hi; subst. destruct (k =? 0) eqn:E.
    + apply Nat.eqb_eq in E. subst. unfold verifies, inst. simpl. symmetry. apply Hroot.
    + reflexivity.
  - pose proof (hint_good _ Hok _ Hc) as Hgood. simpl in Hc, Hi, Hok.
    destruct (mapM (fun h => hint_constr T h) hs) as [cs|] eqn:E; simpl in Hc; [|discriminate].
    pose proof (mapM_Forall2 _ _ _ E) as HF. rewrite Forall_forall in IH. rewrite forallP_In in Hok.
    assert (Hcs : forall c0, In c0 cs -> good c0).
    { intros c0 Hc0. destruct (Forall2_In_r _ _ _ _ HF Hc0) as [h0 [H1 H2]]. eapply hint_good; eauto. }
    destruct (any_res_spec _ _ _ Hi) as [Ht Hf]. destruct b.
    + destruct (Ht eq_refl) as [h0 [Hh0 Hisa]]. destruct (Forall2_In_l _ _ _ _ HF Hh0) as [c0 [Hc0 Hhc]].
      pose proof (IH h0 Hh0 (Hok h0 Hh0) c0 true Hhc Hisa) as Hv.
      apply (closed_verifies c0 a (Hcs c0 Hc0)) in Hv as [s Hs].
      apply (closed_verifies c a Hgood). exists s. apply (anyof_get_sem _ _ Hc). apply existsP_In. eauto.
    + destruct (verifies T c a) eqn:Ev; [|reflexivity]. exfalso.
      apply (closed_verifies c a Hgood) in Ev as [s Hs]. apply (anyof_get_sem _ _ Hc) in Hs.
      apply existsP_In in Hs as [c0 [Hc0 Hs0]].
      destruct (Forall2_In_r _ _ _ _ HF Hc0) as [h0 [Hh0 Hhc]].
      assert (Hv : verifies T c0 a = true) by (apply (closed_verifies c0 a (Hcs c0 Hc0)); eauto).
      rewrite (IH h0 Hh0 (Hok h0 Hh0) c0 false Hhc (Hf eq_refl h0 Hh0)) in Hv. discriminate.
  - cbn [isa] in Hi. rewrite Hc in Hi. simpl in Hi. inversion Hi. reflexivity.
  - simpl in Hi. discriminate.
Qed.

End Get.
