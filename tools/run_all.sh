#!/bin/bash
# tools/run_all.sh quick|thorough [ids...] : run the tier for every claimed property (or the given ids), log exit codes
tier=$1; shift
ids="$@"; [ -z "$ids" ] && ids=$(/venv/bin/python -c "import json;print(' '.join(json.load(open('/verif/tools/claimed.json'))))")
log=/verif/build/run_all_$tier.log; : > $log
for p in $ids; do
  s=$(date +%s); out=$(cd /verif && ./check $p --tier $tier 2>&1); rc=$?
  echo "$p rc=$rc wall=$(( $(date +%s) - s ))s viol=$(echo "$out" | grep -c '^VIOLATION') :: $(echo "$out" | tail -1)" >> $log
done
echo DONE >> $log
