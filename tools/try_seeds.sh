#!/bin/bash
# tools/try_seeds.sh Cxx /tmp/wt-cxx/seeds  -- apply each seed to /repo, run demo + quick check, undo
P=$1; D=$2
for s in $(ls $D); do
  echo "== $P seed $s"
  if git -C /repo apply $D/$s/patch.diff; then
    /venv/bin/python $D/$s/demo.py /repo >/dev/null 2>&1; echo "demo rc with patch: $?"
    out=$(cd /verif && ./check $P --tier quick 2>/dev/null); echo "check violations: $(echo "$out" | grep -c '^VIOLATION')"; echo "$out" | grep '^VIOLATION' | head -2
    git -C /repo checkout -- .
    /venv/bin/python $D/$s/demo.py /repo >/dev/null 2>&1; echo "demo rc without: $?"
  else echo "patch does not apply"; fi
done
git -C /repo status --short
