#!/venv/bin/python
"""Print the prompt given to a seeding sub-agent for property Cxx (only the property text + its worktree)."""
import json, sys
pid = sys.argv[1].upper(); n = sys.argv[2] if len(sys.argv) > 2 else "3"
p = next(json.loads(l) for l in open('/verif/properties.jsonl') if json.loads(l)['id'] == pid)
wt = f"/tmp/wt-{pid.lower()}"
print(f"""You are a careful adversarial software engineer. You have your own scratch git worktree of the xDSL compiler framework (Python) at {wt} . Work ONLY inside {wt} (do not touch /repo, /verif or anything else; do not look at /verif). Run Python as `cd {wt} && PYTHONPATH={wt} /venv/bin/python ...`.

A semantic property that xDSL should satisfy:

"{pid} — {p['title']}. {p['statement']}"
(Quantifier: {p['quantifier']['text']})
(Code: {', '.join(p['anchors']['files'])}.)

Task: produce {n} different, independent changes to the xDSL source, each of which BREAKS this property while the code still imports and the existing test suite still passes (run: `cd {wt} && PYTHONPATH={wt} /venv/bin/python -m pytest -q -p no:cacheprovider tests -x -q --timeout=900 --deselect tests/dialects/test_universe.py::test_multiverse --deselect tests/xdsl_tblgen/test_tblgen.py::test_run_tblgen_to_py` — about 50 s on an idle machine, the machine is loaded so it may take a few minutes; those two deselected tests fail even on the unmodified tree). Spread the changes over different mechanisms/files of the anchored code. Each change must look like a plausible refactoring/optimisation mistake and must need something SPECIFIC to manifest — a particular multi-step sequence of operations, an unusual input, a boundary value, or two cooperating sites that each look fine alone — NOT something ordinary use exposes at once. For each change write:
 - {wt}/seeds/<n>/patch.diff  (unified diff against the worktree's HEAD, produced with `git diff` so that `git apply` works from the repository root),
 - {wt}/seeds/<n>/demo.py (a small standalone program that exits non-zero / fails an assertion WITH the change applied and exits 0 WITHOUT it; `python demo.py <repo_root>` must insert <repo_root> at sys.path[0]),
 - {wt}/seeds/<n>/meta.json {{"property": "{pid}", "summary": ..., "needs_to_manifest": ..., "tests_run": "<command and result>"}}.
Never use `git stash` (the stash is shared between worktrees; use `git diff > file` and `git apply -R file` instead). Work on one change at a time: apply it, run the test suite, run the demo, save the files, then `git checkout -- .` (keeping the untracked seeds/ directory) before the next. At the end the worktree must be clean except for seeds/. Report the summaries.""")
