#!/venv/bin/python
"""Regenerate /verif/MANIFEST.json from the META of every harness/props/cXX.py (claimed) and
tools/not_applicable.json (everything else)."""
import importlib, json, sys
sys.path[:0] = ["/repo", "/verif"]
from pathlib import Path
V = Path("/verif")
props = [json.loads(l) for l in (V / "properties.jsonl").read_text().splitlines() if l.strip()]
na_reasons = json.loads((V / "tools/not_applicable.json").read_text())
claimed = set(json.loads((V / "tools/claimed.json").read_text()))  # integrated + verified by the lead
checks, na, served = [], [], []
for p in props:
    pid = p["id"]
    f = V / "harness/props" / f"{pid.lower()}.py"
    if f.exists() and pid in claimed:
        m = importlib.import_module(f"harness.props.{pid.lower()}").META
        served.append(pid)
        checks.append({
            "property_id": pid,
            "quick_cmd": f"./check {pid} --tier quick",
            "thorough_cmd": f"./check {pid} --tier thorough",
            "evidence_file": f"/verif/evidence/{pid}.json",
            "replay_cmd_template": f"./check {pid} --replay {{path}}",
            "engine": "coq-8.16.1+correspondence",
            "level_claimed": {"category": "proof", "text": m["level_text"], "design_ref": m["design_ref"]},
            "level_note": m["level_note"],
            "technique": m["technique"],
        })
    else:
        na.append({"property_id": pid, "reason": na_reasons.get(pid, "not yet built: no Coq model/correspondence for this property in this revision (see DESIGN.md section 8." + pid + ")")})
man = {
    "version": 1,
    "setup_cmd": "cd /verif && ./check --setup",
    "hooks": {"guard": "XDSL_VERIF", "enable": "none needed: all instrumentation is done from the harness side; ./check exports XDSL_VERIF=1 for uniformity",
              "baseline_off_cmd": "/verif/tools/baseline_check.py", "source_commits": [], "add_only": True},
    "engines": [
        {"name": "coq", "path": "/verif/coq", "serves_properties": served,
         "kind_free_text": "Coq 8.16.1 development: executable Gallina models, proofs, Props/Cxx.v theorem files (coq_makefile full .vo build)"},
        {"name": "harness", "path": "/verif/harness", "serves_properties": served,
         "kind_free_text": "python correspondence harness: runs /repo's working tree and the Coq model (vm_compute inside coqc) on the same cases; statement-level oracles; translators under harness/translate"},
    ],
    "checks": checks,
    "not_applicable": na,
    "notes": "Every check = (1) regenerate translator output from /repo, (2) rebuild and re-check the Coq theorems, (3) model-vs-code correspondence + oracle search, (4) known-finding replay. See DESIGN.md.",
}
(V / "MANIFEST.json").write_text(json.dumps(man, indent=1) + "\n")
print(f"claimed {len(checks)}, not_applicable {len(na)}")
