#!/bin/bash
# tools/coqchk_all.sh [ids...] : re-check the compiled Props/Cxx.vo (and everything it depends on) with the
# independent checker coqchk and record the axiom summary under /verif/coqchk/Cxx.txt (committed).
ids="$@"; [ -z "$ids" ] && ids=$(/venv/bin/python -c "import json;print(' '.join(json.load(open('/verif/tools/claimed.json'))))")
mkdir -p /verif/coqchk
cd /verif/coq
run() { p=$1; ( echo "# coqchk -o -silent -Q . XV XV.Props.$p   ($(date -u +%FT%TZ), $(coqchk --version 2>/dev/null | head -1))"; timeout 3000 coqchk -o -silent -Q . XV XV.Props.$p 2>&1 | tail -120; echo "exit=$?" ) > /verif/coqchk/$p.txt; }
export -f run
printf "%s\n" $ids | xargs -P 4 -I{} bash -c 'run {}'
grep -L "Axioms: <none>" /verif/coqchk/*.txt | sed 's/^/has axioms or failed: /'
