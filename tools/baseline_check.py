#!/venv/bin/python
"""Run the pinned suite in /repo (hooks guard OFF) and compare with /root/.vp/BASELINE.json stable_pass."""
import json, os, subprocess, sys, xml.etree.ElementTree as ET
out = "/verif/build/junit.xml"
os.makedirs("/verif/build", exist_ok=True)
env = dict(os.environ); env.pop("XDSL_VERIF", None)
subprocess.run(["/venv/bin/python", "-m", "pytest", "-ra", "-q", "-p", "no:cacheprovider", "--timeout=900",
                "--continue-on-collection-errors", f"--junitxml={out}"], cwd="/repo", env=env,
               stdout=subprocess.DEVNULL, stderr=subprocess.DEVNULL)
passed = set()
for tc in ET.parse(out).getroot().iter("testcase"):
    if not any(ch.tag in ("failure", "error", "skipped") for ch in tc):
        passed.add(f"{tc.get('classname')}::{tc.get('name')}")
base = set(json.load(open("/root/.vp/BASELINE.json"))["stable_pass"])
missing = sorted(base - passed)
print(f"passed={len(passed)} baseline={len(base)} missing={len(missing)}")
for m in missing[:40]:
    print("  MISSING", m)
sys.exit(1 if missing else 0)
